"""Reference models, written from the documentation only.

`ref_build` is a post-order evaluator with an identity memo that pins its keys.
It reads a Buildable's *documented canonical storage* (`__arguments__`:
positional-only and *args under int keys, everything else under names) and
forms the call the way a user would write it.
"""

import collections
import functools
import inspect

import fiddle as fdl
from fiddle._src import config as _cfg
from fiddle._src import partial as _partial

from harness import canon as C

NO_VALUE = fdl.NO_VALUE


class CannotFormCall(Exception):
  """The configured arguments cannot form a call (required parameter missing)."""


class RefRaised(Exception):
  """The reference evaluation raised (wrapped original in .orig)."""

  def __init__(self, orig, node=None):
    super().__init__(repr(orig))
    self.orig = orig
    self.node = node


def form_call(fn, args):
  """(pos, kw) for calling `fn` with canonical-storage `args` (already built).

  Unset parameters are not passed, unless a later positional value must be
  passed positionally, in which case the parameter's own default is passed
  (equivalent to not passing it).  Raises CannotFormCall when a required
  parameter stands in the way.
  """
  sig = inspect.signature(fn)
  params = list(sig.parameters.values())
  positional = [p for p in params if p.kind in (p.POSITIONAL_ONLY, p.POSITIONAL_OR_KEYWORD)]
  var_start = next((i for i, p in enumerate(params) if p.kind == p.VAR_POSITIONAL), None)
  rest = dict(args)
  varargs = []
  if var_start is not None:
    i = var_start
    while i in rest:
      varargs.append(rest.pop(i))
      i += 1
  slots = []  # (param, value|_MISSING)
  for i, p in enumerate(positional):
    key = i if p.kind == p.POSITIONAL_ONLY else p.name
    slots.append((p, rest.pop(key) if key in rest else _MISSING))
  pos, kw = [], {}
  if varargs:
    need = len(slots)
  else:
    need = 0
    for i, (p, v) in enumerate(slots):
      if p.kind == p.POSITIONAL_ONLY and v is not _MISSING:
        need = i + 1
  for i, (p, v) in enumerate(slots):
    if i < need:
      if v is _MISSING:
        if p.default is p.empty:
          raise CannotFormCall(f'required positional parameter {p.name!r} is unset')
        v = p.default
      pos.append(v)
    elif v is not _MISSING:
      kw[p.name] = v
  pos.extend(varargs)
  for k, v in rest.items():
    if not isinstance(k, str):
      raise CannotFormCall(f'stray positional key {k!r}')
    kw[k] = v
  return pos, kw


_MISSING = object()


def ref_build(x, memo=None, on_call=None):
  """Reference build of Config graphs (Configs and TaggedValues only)."""
  if memo is None:
    memo = {}
  if C.is_leaf(x) or C.is_symbol(x):
    return x
  if id(x) in memo:
    return memo[id(x)][1]
  if isinstance(x, _cfg.Buildable):
    built_args = {k: ref_build(v, memo, on_call) for k, v in _ordered_items(x)}
    if isinstance(x, _cfg.TaggedValueCls):
      if 'value' not in built_args:
        raise RefRaised(fdl.TaggedValueNotFilledError('unset'), x)
      result = built_args['value']
    elif isinstance(x, fdl.Config):   # incl. the experimental DictConfig / NamespaceConfig subclasses
      pos, kw = form_call(x.__fn_or_cls__, built_args)
      if on_call is not None:
        on_call(x)
      try:
        result = x.__fn_or_cls__(*pos, **kw)
      except Exception as e:  # pylint: disable=broad-except
        raise RefRaised(e, x) from e
    else:
      raise NotImplementedError(type(x))
  elif C.is_namedtuple(x):
    result = type(x)(*[ref_build(v, memo, on_call) for v in x])
  elif type(x) is tuple:
    result = tuple(ref_build(v, memo, on_call) for v in x)
  elif type(x) is list:
    result = [ref_build(v, memo, on_call) for v in x]
  elif type(x) is dict:
    result = {k: ref_build(v, memo, on_call) for k, v in x.items()}
  elif isinstance(x, collections.defaultdict):
    result = collections.defaultdict(
        x.default_factory, {k: ref_build(v, memo, on_call) for k, v in x.items()})
  elif type(x).__name__ == 'Box' and hasattr(x, '__vchildren__'):
    result = type(x)([ref_build(v, memo, on_call) for v in x.items])
  else:
    return x
  memo[id(x)] = (x, result)
  return result


def _ordered_items(b):
  return [(k, b.__arguments__[k]) for k in C._ordered_keys(b)]  # pylint: disable=protected-access
