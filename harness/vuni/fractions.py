"""A universe module that has the same last name as the top-level stdlib module `fractions`."""

from harness.vuni import record


def frac(x=None, y=None, child=None):
  return record('vuni.fractions.frac', {'x': x, 'y': y, 'child': child})
