"""Base configurations and fiddlers for the flag checks (C18)."""
import copy

import fiddle as fdl

from harness.vuni import things


def base_a(n=1, label='base'):
  inner = fdl.Config(things.f2, x=n, y=label, child=[1, 2, 3])
  return fdl.Config(things.h1, a=n, b=inner, c={'k': 1, 'sub': fdl.Config(things.f2, x=0)}, d=[inner, 5])


def base_b():
  return fdl.Config(things.f2, x=0, y='b', child=fdl.Config(things.h1, a=1, b=2))


# mutating fiddlers (return None)
def set_y(cfg, value='fiddled'):
  if cfg.__fn_or_cls__ is things.h1:
    cfg.b = value
  else:
    cfg.y = value


def double_first(cfg):
  key = 'a' if cfg.__fn_or_cls__ is things.h1 else 'x'
  cur = getattr(cfg, key)
  setattr(cfg, key, (cur * 2) if isinstance(cur, (int, float, str, list)) else 0)


def append_marker(cfg, marker='m'):
  key = 'e' if cfg.__fn_or_cls__ is things.h1 else 'child'
  cur = cfg.__arguments__.get(key)
  setattr(cfg, key, (cur if isinstance(cur, list) else []) + [marker])


def store_items(cfg, items=None):
  """Stores the argument object itself (by reference), as user fiddlers commonly do."""
  key = 'e' if cfg.__fn_or_cls__ is things.h1 else 'child'
  setattr(cfg, key, items)


# non-mutating fiddlers (return a new Buildable)
def with_first(cfg, value=7):
  key = 'a' if cfg.__fn_or_cls__ is things.h1 else 'x'
  return fdl.copy_with(cfg, **{key: value})


def fresh_copy(cfg):
  return copy.deepcopy(cfg)


BASES = {'base_a': base_a, 'base_b': base_b}
FIDDLERS = {'set_y': set_y, 'double_first': double_first, 'append_marker': append_marker, 'store_items': store_items,
            'with_first': with_first, 'fresh_copy': fresh_copy}
