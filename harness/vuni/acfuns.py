"""auto_config functions with real source (helpers for C20 inline / C11)."""
from fiddle.experimental import auto_config

from harness.vuni import things


@auto_config.auto_config(experimental_always_inline=False)
def make_pair(x, y='py'):
  inner = things.ident(x=x)
  return things.f2(x=inner, y=y, child=[inner, 1])


@auto_config.auto_config(experimental_always_inline=False)
def make_nested(n=1):
  return things.h1(a=n, b=things.f2(x=n), c={'k': things.ident(x='leaf')})


@auto_config.auto_config(experimental_always_inline=False)
def make_shared(v=None):
  s = things.Base(x=v)
  return things.Other(x=s, y=s, child=(s, 2))
