"""Tag hierarchy: TagA <- TagB <- TagC; TagX unrelated."""
import fiddle as fdl


class TagA(fdl.Tag):
  """tag a"""


class TagB(TagA):
  """tag b"""


class TagC(TagB):
  """tag c"""


class TagX(fdl.Tag):
  """tag x"""


ALL = {'TagA': TagA, 'TagB': TagB, 'TagC': TagC, 'TagX': TagX}
