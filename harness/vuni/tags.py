"""Tag hierarchy: TagA <- TagB <- TagC; TagX unrelated."""
import fiddle as fdl


class TagA(fdl.Tag):
  """tag a"""


class TagB(TagA):
  """tag b"""


class TagC(TagB):
  """tag c"""


class TagX(fdl.Tag):
  """tag x"""


class NsA:

  class Same(fdl.Tag):
    """tag NsA.Same"""


class NsB:

  class Same(fdl.Tag):
    """tag NsB.Same (same __name__ as NsA.Same, unrelated)"""


ALL = {'TagA': TagA, 'TagB': TagB, 'TagC': TagC, 'TagX': TagX, 'SameA': NsA.Same, 'SameB': NsB.Same}
