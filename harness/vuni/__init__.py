"""Universe of recording callables used as configured callables by the checks.

Everything here is importable by name (serialization, pickling and code
generation need importable symbols).  Nothing in here imports fiddle except
`tags.py` / `things.py` where a Fiddle API is part of the *input* (Tag classes,
auto_config helper functions).
"""

import threading

# Process-wide invocation log; reset by the harness at the start of each case.
LOG = []
_log_lock = threading.Lock()


def reset_log():
  del LOG[:]


class Rec:
  """Record of one invocation, computed from the callee's own locals."""

  __slots__ = ('fn', 'bound', 'varargs', 'varkw', '__weakref__')

  def __init__(self, fn, bound, varargs=(), varkw=None):
    self.fn = fn
    self.bound = bound  # dict name -> received object (by reference)
    self.varargs = tuple(varargs)
    self.varkw = dict(varkw or {})

  def __repr__(self):
    return f'Rec({self.fn}, {self.bound!r}, *{self.varargs!r}, **{self.varkw!r})'


def record(fn, bound, varargs=(), varkw=None):
  rec = Rec(fn, bound, varargs, varkw)
  LOG.append(rec)
  return rec
