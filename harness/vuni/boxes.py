"""A user-registered daglish node type whose flatten creates temporaries.

Every call of flatten wraps each item in a fresh single-element list, so the
traversal sees short-lived memoizable objects: if a memo keyed by id() does not
pin its keys, a later temporary can reuse the id of a dead one.
"""
import dataclasses

from fiddle import daglish


class Box:

  def __init__(self, items):
    self.items = list(items)

  def __repr__(self):
    return f'Box({self.items!r})'

  def __vcanon__(self):
    return self.items

  def __vchildren__(self):
    return [(('box', i), v) for i, v in enumerate(self.items)]


@dataclasses.dataclass(frozen=True)
class BoxItem(daglish.PathElement):
  index: int

  @property
  def code(self):
    return f'.items[{self.index}]'

  def follow(self, container):
    # same value flatten() hands to the traversal: a fresh temporary wrapper
    return [container.items[self.index]]

  def __lt__(self, other):
    if type(self) is type(other):
      return self.index < other.index
    return daglish.PathElement.__lt__(self, other)


class _Wrap(list):
  pass


def _flatten(box):
  # temporaries: fresh wrapper lists (memoizable, traversable as plain lists)
  return tuple([item] for item in box.items), None


def _unflatten(values, _):
  return Box([v[0] for v in values])


daglish.register_node_traverser(
    Box,
    flatten_fn=_flatten,
    unflatten_fn=_unflatten,
    path_elements_fn=lambda b: tuple(BoxItem(i) for i in range(len(b.items))),
)
