"""Recording callables for every signature shape, created lazily by name.

A *shape* is encoded in the symbol name, so any process can resolve any
symbol deterministically (`getattr(sigs, 'fn_p1k2d1vq10w')`):

  p<np>k<nk>d<nd><v|n>q<kwspec><w|n>

  np      number of positional-only parameters   (names p0, p1, ...)
  nk      number of positional-or-keyword params (names a, b, c, d, e)
  nd      number of trailing positional parameters (over p.. + a..) that have
          a default; default of parameter X is the string 'd_X'
  v|n     has *args / not
  kwspec  one digit per keyword-only parameter (names k0, k1, ...):
          1 = has default 'd_kN', 0 = required
  w|n     has **kw / not

Prefixes select the callable kind:

  fn_<shape>        plain function
  Cls_<shape>       class whose __init__ has the shape
  Holder_<shape>    class with classmethod `.cm` and staticmethod `.sm`
  Callable_<shape>  class whose __call__ has the shape; inst_<shape> is an
                    instance of it
  DC_<fields>[K<fields>]  dataclass; one letter per field: n = required,
                    d = default 'd_<name>', f = default_factory producing a
                    fresh ['f_<name>']; fields after K are kw_only.
                    positional field names x0.., kw_only names y0..

Every callable returns (or stores as `__vrec__`) a `Rec` built from its own
locals; nothing is computed by Fiddle.
"""

import dataclasses
import re
import sys

from harness.vuni import Rec, record

_SHAPE_RE = re.compile(r'^p(\d)k(\d)d(\d)([vn])q([01]*)([wn])$')
_KW_NAMES = 'abcde'


class Shape:
  """Decoded shape."""

  def __init__(self, code):
    m = _SHAPE_RE.match(code)
    if not m:
      raise AttributeError(f'bad shape code {code!r}')
    self.code = code
    self.np, self.nk, self.nd = int(m.group(1)), int(m.group(2)), int(m.group(3))
    self.varargs = m.group(4) == 'v'
    self.kwspec = m.group(5)
    self.varkw = m.group(6) == 'w'
    if self.nd > self.np + self.nk or self.nk > len(_KW_NAMES):
      raise AttributeError(f'bad shape code {code!r}')
    self.posonly = [f'p{i}' for i in range(self.np)]
    self.poskw = list(_KW_NAMES[: self.nk])
    self.positional = self.posonly + self.poskw
    n = len(self.positional)
    self.pos_default = [i >= n - self.nd for i in range(n)]
    self.kwonly = [f'k{i}' for i in range(len(self.kwspec))]
    self.kw_default = [c == '1' for c in self.kwspec]

  def has_default(self, name):
    if name in self.positional:
      return self.pos_default[self.positional.index(name)]
    return self.kw_default[self.kwonly.index(name)]

  def params_src(self):
    parts = []
    for i, name in enumerate(self.positional):
      parts.append(f"{name}='d_{name}'" if self.pos_default[i] else name)
      if i == self.np - 1:
        parts.append('/')
    if self.varargs:
      parts.append('*args')
    elif self.kwonly:
      parts.append('*')
    for name, d in zip(self.kwonly, self.kw_default):
      parts.append(f"{name}='d_{name}'" if d else name)
    if self.varkw:
      parts.append('**kw')
    return ', '.join(parts)

  def body_src(self, label):
    names = self.positional + self.kwonly
    bound = '{' + ', '.join(f'{n!r}: {n}' for n in names) + '}'
    va = 'args' if self.varargs else '()'
    vk = 'kw' if self.varkw else 'None'
    return f'_record({label!r}, {bound}, {va}, {vk})'


def encode_shape(np, nk, nd, varargs, kwspec, varkw):
  return f"p{np}k{nk}d{nd}{'v' if varargs else 'n'}q{kwspec}{'w' if varkw else 'n'}"


def all_shape_codes(max_po=2, max_pk=3, max_ko=2):
  out = []
  for np in range(max_po + 1):
    for nk in range(max_pk + 1):
      for nd in range(np + nk + 1):
        for v in (False, True):
          for nko in range(max_ko + 1):
            for bits in range(2 ** nko):
              kwspec = format(bits, f'0{nko}b') if nko else ''
              for w in (False, True):
                out.append(encode_shape(np, nk, nd, v, kwspec, w))
  return out


class _VObj:
  """Base for instances created by universe classes (canon reads __vrec__)."""


def _make(name):
  g = globals()
  kind, _, code = name.partition('_')
  if kind == 'DC':
    return _make_dc(name, code)
  shape = Shape(code)
  ns = {'_record': record, '__name__': __name__, '_VObj': _VObj}
  ps = shape.params_src()
  if kind == 'fn':
    src = f'def {name}({ps}):\n  return {shape.body_src(name)}\n'
  elif kind == 'Cls':
    sep = ', ' if ps else ''
    src = (
        f'class {name}(_VObj):\n'
        f'  def __init__(self{sep}{ps}):\n'
        f'    self.__vrec__ = {shape.body_src(name)}\n'
    )
  elif kind == 'Holder':
    sep = ', ' if ps else ''
    src = (
        f'class {name}:\n'
        f'  @classmethod\n'
        f'  def cm(cls{sep}{ps}):\n'
        f'    return {shape.body_src(name + ".cm")}\n'
        f'  @staticmethod\n'
        f'  def sm({ps}):\n'
        f'    return {shape.body_src(name + ".sm")}\n'
    )
  elif kind == 'Callable':
    sep = ', ' if ps else ''
    src = (
        f'class {name}:\n'
        f'  def __call__(self{sep}{ps}):\n'
        f'    return {shape.body_src(name + ".__call__")}\n'
    )
  elif kind == 'inst':
    cls = getattr(sys.modules[__name__], 'Callable_' + code)
    obj = cls()
    g[name] = obj
    return obj
  else:
    raise AttributeError(name)
  exec(compile(src, f'<vuni.sigs {name}>', 'exec'), ns)  # pylint: disable=exec-used
  obj = ns[name]
  obj.__module__ = __name__
  obj.__vshape__ = shape
  g[name] = obj
  return obj


_DC_RE = re.compile(r'^([ndf]*)(?:K([ndf]*))?$')


def _make_dc(name, code):
  m = _DC_RE.match(code)
  if not m:
    raise AttributeError(name)
  pos, kwo = m.group(1), m.group(2) or ''
  fields = []

  def mk(fname, letter, kw_only):
    if letter == 'n':
      f = dataclasses.field(kw_only=kw_only)
    elif letter == 'd':
      f = dataclasses.field(default=f'd_{fname}', kw_only=kw_only)
    else:
      f = dataclasses.field(
          default_factory=_Factory(f'f_{fname}'), kw_only=kw_only
      )
    return (fname, object, f)

  for i, l in enumerate(pos):
    fields.append(mk(f'x{i}', l, False))
  for i, l in enumerate(kwo):
    fields.append(mk(f'y{i}', l, True))

  def __post_init__(self):
    record(name, {f.name: getattr(self, f.name) for f in dataclasses.fields(self)})

  cls = dataclasses.make_dataclass(
      name, fields, namespace={'__post_init__': __post_init__}
  )
  cls.__module__ = __name__
  cls.__vdc__ = (pos, kwo)
  globals()[name] = cls
  return cls


class _Factory:
  """default_factory producing a fresh, recognisable list."""

  def __init__(self, label):
    self.label = label

  def __call__(self):
    return [self.label]

  def __repr__(self):
    return f'_Factory({self.label!r})'


def dc_code_valid(pos):
  """Positional dataclass fields: required ones must precede defaulted ones."""
  seen_default = False
  for l in pos:
    if l == 'n' and seen_default:
      return False
    if l != 'n':
      seen_default = True
  return True


def __getattr__(name):
  if name.startswith('__'):
    raise AttributeError(name)
  try:
    return _make(name)
  except AttributeError:
    raise
  except Exception as e:  # pylint: disable=broad-except
    raise AttributeError(f'{name}: {e}') from e
