"""Fixed named things of the universe: enums, named tuples, class hierarchy,
simple functions with hand-written signatures, exception families."""

import collections
import dataclasses
import enum
import typing

from harness.vuni import record, Rec


class Color(enum.Enum):
  RED = 1
  GREEN = 2
  BLUE = 'blue'


Pair = collections.namedtuple('Pair', ['first', 'second'])


class Triple(typing.NamedTuple):
  x: typing.Any
  y: typing.Any = 'd_y'
  z: typing.Any = None


class _VObj:
  pass


# --- class hierarchy for selectors --------------------------------------
class Base(_VObj):

  def __init__(self, x=None, y='d_y', child=None):
    self.__vrec__ = record(type(self).__qualname__, {'x': x, 'y': y, 'child': child})


class Mid(Base):
  pass


class LeafCls(Mid):

  def __init__(self, x=None, y='d_y', child=None, extra='d_extra'):
    self.__vrec__ = record('LeafCls', {'x': x, 'y': y, 'child': child, 'extra': extra})


class Other(_VObj):

  def __init__(self, x=None, y='d_y', child=None):
    self.__vrec__ = record('Other', {'x': x, 'y': y, 'child': child})


# --- plain functions -----------------------------------------------------
def f2(x=None, y='d_y', child=None):
  return record('f2', {'x': x, 'y': y, 'child': child})


def g3(a, b='d_b', *args, k='d_k', **kw):
  return record('g3', {'a': a, 'b': b, 'k': k}, args, kw)


def h1(a=None, b=None, c=None, d=None, e=None):
  return record('h1', {'a': a, 'b': b, 'c': c, 'd': d, 'e': e})


def ident(x=None):
  return record('ident', {'x': x})


def make_list():
  record('make_list', {})
  return ['fresh']


def make_rec(tag='d_tag'):
  return record('make_rec', {'tag': tag})


def po2(p0='d_p0', p1='d_p1', /, a='d_a'):
  return record('po2', {'p0': p0, 'p1': p1, 'a': a})


_MUTABLE_DEFAULT = ['shared-default']


def mutdef(a=_MUTABLE_DEFAULT, b=_MUTABLE_DEFAULT, c=(1, 2)):
  return record('mutdef', {'a': a, 'b': b, 'c': c})


@dataclasses.dataclass
class DCPlain:
  u: typing.Any = 'd_u'
  v: typing.Any = None
  w: list = dataclasses.field(default_factory=list)


@dataclasses.dataclass
class DCNest:
  inner: typing.Any = None
  items: typing.Any = None
  name: str = 'n'


SYMBOLS = {}


def resolve_symbol(name):
  mod, _, attr = name.partition(':')
  import importlib
  # 'std.<module>:<attr>' names a top-level (standard library) module
  m = importlib.import_module(mod[4:] if mod.startswith('std.') else 'harness.vuni.' + mod)
  obj = m
  for part in attr.split('.'):
    obj = getattr(obj, part)
  return obj


class Anything:
  """Compares equal to everything (like unittest.mock.ANY)."""

  def __eq__(self, other):
    return True

  def __ne__(self, other):
    return False

  __hash__ = object.__hash__

  def __repr__(self):
    return 'Anything()'


class _NoTruth:

  def __bool__(self):
    raise ValueError('truth value of an element-wise comparison is ambiguous')


class NoTruthValue:
  """A value without a truth value (like a numpy array with several elements, or pandas.NA)."""

  def __bool__(self):
    raise ValueError('The truth value of an array with more than one element is ambiguous')

  def __repr__(self):
    return 'NO_TRUTH'


NO_TRUTH = NoTruthValue()


class Arrayish:
  """Element-wise == without a truth value (like a numpy array)."""

  def __eq__(self, other):
    return _NoTruth()

  def __ne__(self, other):
    return _NoTruth()

  __hash__ = object.__hash__

  def __repr__(self):
    return 'Arrayish()'


def make_any():
  record('make_any', {})
  return Anything()


def make_arr():
  record('make_arr', {})
  return Arrayish()


# --- failing callables (C05) -------------------------------------------------
class PlainErr(Exception):
  pass


class InitErr(Exception):

  def __init__(self, a, b):
    super().__init__(f'{a}-{b}')
    self.a, self.b = a, b


class StrErr(Exception):

  def __str__(self):
    return 'custom str of StrErr'


class SlotErr(Exception):
  __slots__ = ('code',)

  def __init__(self, code):
    super().__init__(f'slot error {code}')
    self.code = code


class KwErr(Exception):

  def __init__(self, *, code):
    super().__init__(f'kw error {code}')
    self.code = code


class NewErr(Exception):

  def __new__(cls, *args, **kwargs):
    self = super().__new__(cls, *args)
    self.made_by_new = True
    return self


class FinalErr(Exception):

  def __init_subclass__(cls, **kwargs):
    raise TypeError('FinalErr cannot be subclassed')


class BaseExc(BaseException):
  pass


class BadRepr:

  def __repr__(self):
    raise RuntimeError('repr failed')


class BadReprBase:

  def __repr__(self):
    raise BaseExc('repr failed hard')


BAD_REPR = BadRepr()
BAD_REPR_BASE = BadReprBase()

RAISE_ENABLED = True
LAST_RAISED = []
_DYN_COUNT = [0]


def _dyn_exc():
  """A class created at raise time (as in a factory function / re-run notebook cell)."""
  _DYN_COUNT[0] += 1
  base = (RuntimeError, LookupError, ArithmeticError)[_DYN_COUNT[0] % 3]

  class LocalErr(base):
    pass

  return LocalErr(f'local failure {_DYN_COUNT[0]}')


FAMILIES = {
    'plain': lambda: PlainErr('plain failure'),
    'init2': lambda: InitErr('left', 'right'),
    'strov': lambda: StrErr('ignored'),
    'slots': lambda: SlotErr(7),
    'kwonly': lambda: KwErr(code=9),
    'new': lambda: NewErr('made by new'),
    'final': lambda: FinalErr('final failure'),
    'keyerror': lambda: KeyError('missing-key'),
    'oserror': lambda: OSError(2, 'No such file or directory', 'some/file'),
    'unicode': lambda: UnicodeDecodeError('utf-8', b'\xff', 0, 1, 'invalid start byte'),
    'stopiteration': lambda: StopIteration('exhausted'),
    'group': lambda: ExceptionGroup('grp', [ValueError(1), KeyError('k')]),
    'valueerror': lambda: ValueError('bad value'),
    'typeerror': lambda: TypeError('bad type'),
    'systemexit': lambda: SystemExit(3),
    'baseexc': lambda: BaseExc('base failure'),
    'assertion': lambda: AssertionError('assertion failed'),
    'localclass': _dyn_exc,
    # an exception object that escaped from an earlier fdl.build of another configuration (it
    # already carries that build's Fiddle context), raised again by this callable
    'redecorated': lambda: PRESET_EXC[0],
}
PRESET_EXC = [None]


def raiser(x=None, family='plain', y='d_y', child=None, bad=None):
  rec = record('raiser', {'x': x, 'family': family, 'y': y, 'child': child, 'bad': bad})
  if RAISE_ENABLED and family != 'none':
    # a failing callable may well have modified its (built) arguments before it fails
    if type(child) is list:
      child.append('touched-before-failing')
    elif type(child) is dict:
      child['touched-before-failing'] = 1
    exc = FAMILIES[family]()
    LAST_RAISED.append(exc)
    raise exc
  return rec


def raiser_po(family, bad=None, /, x=None, y='d_y', child=None):
  """`raiser` with the family and the hostile value passed positionally."""
  return raiser(x=x, family=family, y=y, child=child, bad=bad)


NESTED_TARGET = None
NESTED_LOG = []


def nester(x=None, attempts=1, child=None):
  """Tries `attempts` nested fdl.build calls, swallowing each rejection."""
  import fiddle as fdl
  rec = record('nester', {'x': x, 'attempts': attempts, 'child': child})
  for _ in range(attempts):
    try:
      fdl.build(NESTED_TARGET)
      NESTED_LOG.append('returned')
    except Exception as e:  # pylint: disable=broad-except
      NESTED_LOG.append(('raised', type(e).__name__))
  return rec


# --- serialization helpers (C09) ----------------------------------------------
class ConstObj:
  """A module-level constant registered with serialization.register_constant."""

  def __repr__(self):
    return 'CONST_OBJ'


CONST_OBJ = ConstObj()


class DictObj:
  """A dict-based object registered with register_dict_based_object."""

  def __init__(self, **kw):
    self.__dict__.update(kw)

  def __vcanon__(self):
    return dict(self.__dict__)

  def __vchildren__(self):
    return [(('a', k), v) for k, v in self.__dict__.items()]

  def __repr__(self):
    return f'DictObj({self.__dict__!r})'


DICT_OBJ = DictObj(alpha=1, beta=[1, 2], gamma='g')

NEW_CALLS = []


class DictObjNew(DictObj):
  """Dict-based object whose class has a __new__ of its own (required parameter, side effect)."""

  def __new__(cls, token, **kw):
    NEW_CALLS.append(token)
    return super().__new__(cls)

  def __init__(self, token, **kw):
    super().__init__(token=token, **kw)

  def __repr__(self):
    return f'DictObjNew({self.__dict__!r})'


DICT_OBJ_NEW = DictObjNew('tok', n=[3])

class DictObjGuard(DictObj):
  """Dict-based object whose class has attribute protocol of its own: assignments are counted
  (restoring its state must write the instance dict, not go through __setattr__)."""

  def __init__(self, **kw):
    self.__dict__.update(kw)

  def __setattr__(self, name, value):
    self.__dict__['edits'] = self.__dict__.get('edits', 0) + 1
    self.__dict__[name] = value

  def __repr__(self):
    return f'DictObjGuard({self.__dict__!r})'


DICT_OBJ_GUARD = DictObjGuard(value=7, items=[1, 2])

LAMBDA = lambda: None  # unserializable on purpose  pylint: disable=unnecessary-lambda-assignment

CANARY_CALLS = []


def canary(*args, **kwargs):
  CANARY_CALLS.append((args, kwargs))
  return 'canary-result'


class CanaryCls:

  def __init__(self, *args, **kwargs):
    CANARY_CALLS.append(('CanaryCls', args, kwargs))


# --- annotation tags (C14) ----------------------------------------------------
from harness.vuni import tags as _vt  # noqa: E402  pylint: disable=wrong-import-position


def annotated_fn(x: typing.Annotated[typing.Any, _vt.TagA] = None,
                 y: typing.Annotated[typing.Any, _vt.TagC] = 'd_y',
                 child: typing.Any = None):
  return record('annotated_fn', {'x': x, 'y': y, 'child': child})


def annotated_po(p0: typing.Annotated[typing.Any, _vt.TagB] = 'd_p0', /,
                 a: typing.Annotated[typing.Any, _vt.TagX] = None, *args,
                 k: typing.Annotated[typing.Any, _vt.TagA] = 'd_k', **kw):
  return record('annotated_po', {'p0': p0, 'a': a, 'k': k}, args, kw)


_SINGLE_DEFAULT = ['single-default']


_NEST_DEFAULT = {'k': ['nested-default']}


class Pool:
  """A plain object compared by identity (no __eq__): used as a sentinel default."""

  def __repr__(self):
    return 'DEFAULT_POOL' if self is DEFAULT_POOL else 'Pool()'


DEFAULT_POOL = Pool()


def pooled(x=None, pool=DEFAULT_POOL, child=None):
  """A parameter whose default is a sentinel object compared by identity."""
  return record('pooled', {'x': x, 'pool': 'default-pool' if pool is DEFAULT_POOL else 'other-pool', 'child': child})


def mutnest(a=_NEST_DEFAULT, c=(1, 2), other=None):
  """A nested mutable default (a dict holding a list)."""
  return record('mutnest', {'a': a, 'c': c, 'other': other})


def mutdef1(a=_SINGLE_DEFAULT, c=(1, 2), other=None, a_done=None):
  """One mutable default, not shared with any other parameter (a_done: a sibling whose name
  starts with the name of the defaulted parameter)."""
  return record('mutdef1', {'a': a, 'c': c, 'other': other, 'a_done': a_done})


class Statics:
  """Static / class method factories (auto_config targets and callees)."""

  @staticmethod
  def smake(x=None, y='d_y'):
    return record('Statics.smake', {'x': x, 'y': y})

  @classmethod
  def cmake(cls, x=None, y='d_y'):
    return record('Statics.cmake', {'x': x, 'y': y})


class PairSub(Pair):
  """Subclass of a namedtuple class (the usual way to add methods)."""
  __slots__ = ()

  def total(self):
    return (self.first, self.second)


_T = typing.TypeVar('_T')


class GenericNT(typing.NamedTuple, typing.Generic[_T]):
  item: _T
  label: str = 'd_label'


# --- additions driven by round-2 seeded changes --------------------------------
def kwdef(a=None, *, scale=1.0, child=None):
  """Keyword-only parameters with defaults."""
  return record('kwdef', {'a': a, 'scale': scale, 'child': child})


def po3(p0, p1='d_p1', p2='d_p2', /, a='d_a'):
  """A required positional-only parameter followed by defaulted ones."""
  return record('po3', {'p0': p0, 'p1': p1, 'p2': p2, 'a': a})


def kwf(a=None, **kw):
  return record('kwf', {'a': a}, (), kw)


def kwg(a=None, **kw):
  return record('kwg', {'a': a}, (), kw)


class DataLoader(_VObj):
  """Snake-cases to the same name as the function data_loader below."""

  def __init__(self, x=None, child=None):
    self.__vrec__ = record('DataLoader', {'x': x, 'child': child})


def data_loader(x=None, child=None):
  return record('data_loader', {'x': x, 'child': child})


class Outer:

  class Mode(enum.Enum):
    FAST = 1
    SLOW = 2


class Mode(enum.Enum):
  """Unrelated top-level enum with the same member names as Outer.Mode."""
  FAST = 'top-fast'
  SLOW = 'top-slow'


class Prec(enum.IntEnum):
  """An enum whose members are ints as well."""
  HALF = 16
  FULL = 32


class Kind(str, enum.Enum):
  """An enum whose members are strings as well."""
  DENSE = 'dense'
  SPARSE = 'sparse'


def mutating(x=None, child=None):
  """Modifies its container argument in place while being built."""
  rec = record('mutating', {'x': x, 'child': list(child) if isinstance(child, list) else child})
  # only exact list/dict: those are the containers fdl.build re-creates; any other object (a
  # dict subclass, a set, ...) is handed to the callable by reference by design
  if type(child) is list:
    child.append('mutated-by-callee')
  elif type(child) is dict:
    child['mutated-by-callee'] = 1
  return rec


@dataclasses.dataclass(eq=True)
class UCallA:
  """Unhashable callable instance (eq=True dataclass)."""
  k: int = 0

  def __call__(self, x, y='d_y'):
    return record('UCallA', {'k': self.k, 'x': x, 'y': y})


@dataclasses.dataclass(eq=True)
class UCallB:
  k: int = 0

  def __call__(self, p, q='d_q', *, r='d_r'):
    return record('UCallB', {'k': self.k, 'p': p, 'q': q, 'r': r})


@dataclasses.dataclass(eq=True)
class UCallC:
  k: int = 0

  def __call__(self, x='d_x', *rest):
    return record('UCallC', {'k': self.k, 'x': x}, rest)


def make_method_class():
  """A fresh class (fresh function objects) with an instance method, a classmethod and a
  staticmethod of different signatures; the same function is reachable bound (obj.scale,
  Cls.make) and plain (Cls.scale with an explicit self)."""

  class Meth:

    def __init__(self, k=0):
      self.k = k

    def scale(self, x, offset='d_offset'):
      return record('Meth.scale', {'self': getattr(self, 'k', self), 'x': x, 'offset': offset})

    def shift(self, *amounts, by='d_by'):
      return record('Meth.shift', {'self': getattr(self, 'k', self), 'by': by}, amounts)

    @classmethod
    def make(cls, x, y='d_y'):
      return record('Meth.make', {'cls': cls.__name__, 'x': x, 'y': y})

  Meth.__module__ = __name__
  return Meth


class MainOuter:
  """Stands for objects defined in the running script: __module__ is '__main__' and generated
  code refers to them by bare (dotted) qualname; the names are made resolvable via builtins."""

  class Inner(_VObj):

    def __init__(self, x=None, y=None, child=None):
      self.__vrec__ = record('MainOuter.Inner', {'x': x, 'y': y, 'child': child})


def main_fn(x=None, y=None, child=None):
  return record('main_fn', {'x': x, 'y': y, 'child': child})


MainOuter.__module__ = '__main__'
MainOuter.Inner.__module__ = '__main__'
main_fn.__module__ = '__main__'
import builtins as _builtins  # pylint: disable=g-import-not-at-top
_builtins.MainOuter = MainOuter
_builtins.main_fn = main_fn


def join_none(first, sep=None, *rest):
  """Positional parameter whose default is None, followed by *args."""
  return record('join_none', {'first': first, 'sep': sep}, rest)


def pos_none(a=None, b=0, /, c='d_c'):
  """Positional-only parameters with defaults None and 0."""
  return record('pos_none', {'a': a, 'b': b, 'c': c})


class BaseCM(_VObj):
  """A classmethod inherited by SubCM: SubCM.make and BaseCM.make wrap the same function but are
  bound to different classes (and build different objects)."""

  def __init__(self, x=None, y=None, child=None):
    self.__vrec__ = record(type(self).__qualname__, {'x': x, 'y': y, 'child': child})

  @classmethod
  def make(cls, x=None, y=None, child=None):
    return cls(x=x, y=y, child=child)


class SubCM(BaseCM):
  pass


# module-level constants that are *not* registrable by value (JSON primitives / traversable)
HALF = 0.5
ADAM = 'adam'
PAIR34 = (3, 4)


# a module-level constant that *is* registrable by value, and that compares equal to a JSON
# primitive of another type (Fraction(3, 2) == 1.5, with equal hashes)
import fractions as _fractions
FRAC_3_2 = _fractions.Fraction(3, 2)


class StrSub(str):
  pass


class TupSub(tuple):
  pass


class ListSub(list):
  """A list subclass: not traversed by daglish, handed to callables as it is."""

  def marker(self):
    return 'ListSub'


class CfgError(Exception):
  """A user-defined exception class used as an ordinary configurable callable."""

  def __init__(self, x=None, y=None, child=None):
    super().__init__(x)
    self.__vrec__ = record('CfgError', {'x': x, 'y': y, 'child': child})


def kwnames(x=None, _from=None, _in=None, child=None):
  """Parameter names that become Python keywords when their underscores are stripped."""
  return record('kwnames', {'x': x, '_from': _from, '_in': _in, 'child': child})


class Lambda(_VObj):
  """A class whose snake-cased name is a Python keyword."""

  def __init__(self, x=None, y=None):
    self.__vrec__ = record('Lambda', {'x': x, 'y': y})

