"""Fixed named things of the universe: enums, named tuples, class hierarchy,
simple functions with hand-written signatures, exception families."""

import collections
import dataclasses
import enum
import typing

from harness.vuni import record, Rec


class Color(enum.Enum):
  RED = 1
  GREEN = 2
  BLUE = 'blue'


Pair = collections.namedtuple('Pair', ['first', 'second'])


class Triple(typing.NamedTuple):
  x: typing.Any
  y: typing.Any = 'd_y'
  z: typing.Any = None


class _VObj:
  pass


# --- class hierarchy for selectors --------------------------------------
class Base(_VObj):

  def __init__(self, x=None, y='d_y', child=None):
    self.__vrec__ = record(type(self).__qualname__, {'x': x, 'y': y, 'child': child})


class Mid(Base):
  pass


class LeafCls(Mid):

  def __init__(self, x=None, y='d_y', child=None, extra='d_extra'):
    self.__vrec__ = record('LeafCls', {'x': x, 'y': y, 'child': child, 'extra': extra})


class Other(_VObj):

  def __init__(self, x=None, y='d_y', child=None):
    self.__vrec__ = record('Other', {'x': x, 'y': y, 'child': child})


# --- plain functions -----------------------------------------------------
def f2(x=None, y='d_y', child=None):
  return record('f2', {'x': x, 'y': y, 'child': child})


def g3(a, b='d_b', *args, k='d_k', **kw):
  return record('g3', {'a': a, 'b': b, 'k': k}, args, kw)


def h1(a=None, b=None, c=None, d=None, e=None):
  return record('h1', {'a': a, 'b': b, 'c': c, 'd': d, 'e': e})


def ident(x=None):
  return record('ident', {'x': x})


def make_list():
  record('make_list', {})
  return ['fresh']


def make_rec(tag='d_tag'):
  return record('make_rec', {'tag': tag})


def po2(p0='d_p0', p1='d_p1', /, a='d_a'):
  return record('po2', {'p0': p0, 'p1': p1, 'a': a})


_MUTABLE_DEFAULT = ['shared-default']


def mutdef(a=_MUTABLE_DEFAULT, b=_MUTABLE_DEFAULT, c=(1, 2)):
  return record('mutdef', {'a': a, 'b': b, 'c': c})


@dataclasses.dataclass
class DCPlain:
  u: typing.Any = 'd_u'
  v: typing.Any = None
  w: list = dataclasses.field(default_factory=list)


@dataclasses.dataclass
class DCNest:
  inner: typing.Any = None
  items: typing.Any = None
  name: str = 'n'


SYMBOLS = {}


def resolve_symbol(name):
  mod, _, attr = name.partition(':')
  import importlib
  m = importlib.import_module('harness.vuni.' + mod)
  obj = m
  for part in attr.split('.'):
    obj = getattr(obj, part)
  return obj


class Anything:
  """Compares equal to everything (like unittest.mock.ANY)."""

  def __eq__(self, other):
    return True

  def __ne__(self, other):
    return False

  __hash__ = object.__hash__

  def __repr__(self):
    return 'Anything()'


class _NoTruth:

  def __bool__(self):
    raise ValueError('truth value of an element-wise comparison is ambiguous')


class Arrayish:
  """Element-wise == without a truth value (like a numpy array)."""

  def __eq__(self, other):
    return _NoTruth()

  def __ne__(self, other):
    return _NoTruth()

  __hash__ = object.__hash__

  def __repr__(self):
    return 'Arrayish()'


def make_any():
  record('make_any', {})
  return Anything()


def make_arr():
  record('make_arr', {})
  return Arrayish()
