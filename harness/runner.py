"""Campaign runner: ./check <ID> quick|thorough|--replay <file>.

Exit codes: 0 property held on everything explored (KNOWN-FINDING lines
allowed); 1 violation not listed in known_findings.json (VIOLATION line on
stdout); 2 harness error (never printed as VIOLATION).
"""

import hashlib
import importlib
import json
import multiprocessing
import os
import sys
import time
import traceback

VERIF = os.path.dirname(os.path.dirname(os.path.abspath(__file__)))
REPO = os.path.realpath(os.environ.get('VERIF_REPO', '/repo'))
NWORKERS = int(os.environ.get('VERIF_WORKERS', '16'))


def setup_paths():
  if REPO not in sys.path[:1]:
    sys.path.insert(0, REPO)
  if VERIF not in sys.path:
    sys.path.insert(1, VERIF)
  deps = os.path.join(VERIF, '.deps')
  if os.path.isdir(deps) and deps not in sys.path:
    sys.path.append(deps)
  import logging
  logging.disable(logging.CRITICAL)
  try:
    from absl import logging as absl_logging
    absl_logging.set_verbosity(absl_logging.FATAL)
    absl_logging.set_stderrthreshold('fatal')
  except Exception:  # pylint: disable=broad-except
    pass
  import fiddle
  f = os.path.realpath(fiddle.__file__)
  if not f.startswith(REPO + os.sep):
    raise RuntimeError(f'fiddle imported from {f}, expected under {REPO}')


class Finding:
  """One violated oracle clause on one case."""

  def __init__(self, clause, kind, where='', feature='', detail=''):
    self.clause, self.kind, self.where, self.feature = clause, kind, where, feature
    self.detail = detail

  @property
  def bucket(self):
    return '|'.join([self.clause, self.kind, self.where, self.feature])

  def to_json(self):
    return {'bucket': self.bucket, 'detail': self.detail[:2000]}


class Outcome:
  """Result of judging one case."""

  def __init__(self):
    self.findings = []
    self.nontrivial = False
    self.classes = []
    self.skipped = None  # reason string: case not judged (precondition)
    self.prereq_failed = 0

  def add(self, clause, kind, where='', feature='', detail=''):
    self.findings.append(Finding(clause, kind, where, feature, detail))

  def cls(self, *names):
    self.classes.extend(names)


def fiddle_frame(exc):
  """Innermost traceback frame inside fiddle/_src as 'file:function'."""
  tb = exc.__traceback__
  best = ''
  while tb is not None:
    fn = tb.tb_frame.f_code.co_filename
    if os.sep + 'fiddle' + os.sep in fn and REPO in os.path.realpath(fn):
      best = os.path.basename(fn) + ':' + tb.tb_frame.f_code.co_name
    tb = tb.tb_next
  return best


def exc_kind(exc):
  return type(exc).__name__


def case_hash(case):
  return hashlib.sha1(
      json.dumps(case, sort_keys=True, default=repr).encode()
  ).hexdigest()


def derive_seed(seed, prop_id, widx, phase=0):
  h = hashlib.sha256(f'{seed}/{prop_id}/{widx}/{phase}'.encode()).digest()
  return int.from_bytes(h[:8], 'big')


def load_known(prop_id):
  path = os.path.join(VERIF, 'known_findings.json')
  if not os.path.exists(path):
    return []
  with open(path) as f:
    data = json.load(f)
  return [e for e in data.get('entries', []) if e.get('property') == prop_id]


def load_prop(prop_id):
  return importlib.import_module(f'harness.props.{prop_id.lower()}')


class _Abort(BaseException):
  pass


class CaseTimeout(BaseException):
  """One case ran longer than the per-case watchdog allows (inconclusive, never a verdict)."""


def _on_alarm(signum, frame):
  raise CaseTimeout()


def _judge(mod, case):
  """Runs the oracle; oracle crashes are harness errors, not violations.

  A per-case watchdog (SIGALRM in the worker's main thread; CASE_TIMEOUT seconds, default 300,
  None = off) turns a case that does not come back into a counted skip: a time budget that is
  hit means "inconclusive", and one runaway case must not hang the whole check."""
  import signal
  from harness import vuni
  vuni.reset_log()
  limit = getattr(mod, 'CASE_TIMEOUT', 300)
  if os.environ.get('VERIF_CASE_TIMEOUT'):
    limit = float(os.environ['VERIF_CASE_TIMEOUT'])
  if not limit or not hasattr(signal, 'setitimer'):
    return mod.check(case)
  try:
    old = signal.signal(signal.SIGALRM, _on_alarm)
  except ValueError:  # not in the main thread
    return mod.check(case)
  try:
    try:
      signal.setitimer(signal.ITIMER_REAL, limit)
      return mod.check(case)
    finally:
      signal.setitimer(signal.ITIMER_REAL, 0)
      signal.signal(signal.SIGALRM, old)
  except CaseTimeout:
    out = Outcome()
    out.skipped = 'case-timeout'
    return out


def _worker(args):
  (prop_id, tier, seed, widx, nworkers, n_examples, mode, target_bucket,
   known_buckets, time_limit) = args
  try:
    setup_paths()
    return _worker_inner(prop_id, tier, seed, widx, nworkers, n_examples, mode,
                         target_bucket, set(known_buckets), time_limit)
  except BaseException:  # pylint: disable=broad-except
    return {'harness_error': traceback.format_exc(), 'widx': widx}


def _worker_inner(prop_id, tier, seed, widx, nworkers, n_examples, mode,
                  target_bucket, known_buckets, time_limit):
  import hypothesis
  from hypothesis import HealthCheck, Phase, given, settings

  mod = load_prop(prop_id)
  t0 = time.time()
  st = {
      'evaluations': 0, 'judged': 0, 'skipped': {}, 'nontrivial_hashes': set(),
      'classes': {}, 'samples': [], 'buckets': {}, 'known_hits': {},
      'budget_skipped': 0, 'prereq_failed': 0, 'widx': widx,
  }
  shrink_state = {'last': None, 'evals_after': 0, 'first_seen': False}

  def process(case, origin):
    if time.time() - t0 > time_limit:
      st['budget_skipped'] += 1
      return None
    st['evaluations'] += 1
    out = _judge(mod, case)
    if out.skipped:
      st['skipped'][out.skipped] = st['skipped'].get(out.skipped, 0) + 1
      return out
    st['judged'] += 1
    st['prereq_failed'] += out.prereq_failed
    for c in set(out.classes):
      st['classes'][c] = st['classes'].get(c, 0) + 1
    if origin == 'generated':
      # generator-health floors are judged on the Hypothesis-generated cases only (enumerated
      # sweeps would dilute or inflate the class rates)
      st['gen_judged'] = st.get('gen_judged', 0) + 1
      for c in set(out.classes):
        st.setdefault('gen_classes', {})
        st['gen_classes'][c] = st['gen_classes'].get(c, 0) + 1
    if out.nontrivial:
      h = case_hash(case)
      if h not in st['nontrivial_hashes']:
        st['nontrivial_hashes'].add(h)
        if len(st['samples']) < 3 and len(st['nontrivial_hashes']) in (1, 20, 200):
          js = json.dumps(case, default=repr)
          if len(js) < 4000:
            st['samples'].append(case)
    seen = set()
    for f in out.findings:
      b = f.bucket
      if b in seen:
        continue
      seen.add(b)
      if b in known_buckets:
        st['known_hits'][b] = st['known_hits'].get(b, 0) + 1
        continue
      size = len(json.dumps(case, default=repr))
      cur = st['buckets'].get(b)
      if cur is None:
        st['buckets'][b] = {'count': 1, 'case': case, 'size': size,
                            'detail': f.detail[:3000], 'origin': origin,
                            'first_index': st['evaluations']}
      else:
        cur['count'] += 1
        if size < cur['size']:
          cur.update(case=case, size=size, detail=f.detail[:3000])
    return out

  hseed = derive_seed(seed, prop_id, widx)
  common = dict(database=None, deadline=None, derandomize=False,
                report_multiple_bugs=False,
                suppress_health_check=[HealthCheck.too_slow,
                                       HealthCheck.data_too_large,
                                       HealthCheck.large_base_example,
                                       HealthCheck.filter_too_much])

  if mode == 'collect':
    # 1. enumerated cases (exhaustive sub-spaces), sharded round-robin
    enum_fn = getattr(mod, 'enumerate_cases', None)
    st['enumerated'] = 0
    if enum_fn is not None:
      for i, case in enumerate(enum_fn(tier)):
        if i % nworkers == widx:
          st['enumerated'] += 1
          process(case, 'enumerated')

    # 2. generated cases
    # Blocks of at most 1000 examples, each with its own derived seed: Hypothesis' per-run
    # bookkeeping grows with max_examples, which made 12000-example runs several times slower
    # per case than 500-example runs.
    done = 0
    block = 0
    while done < n_examples:
      n_block = min(1000, n_examples - done)

      @hypothesis.seed(hseed + 7919 * block)
      @settings(max_examples=n_block, phases=[Phase.generate], **common)
      @given(mod.strategy(tier))
      def campaign(case):
        process(case, 'generated')

      campaign()
      done += n_block
      block += 1
  else:
    # shrink mode: same seed, raise only for target bucket, bounded shrinking
    budget = int(os.environ.get('VERIF_SHRINK_EVALS', '600'))

    class _Bucket(Exception):
      pass

    def judge_target(case):
      out = _judge(mod, case)
      if out.skipped:
        return False
      return any(f.bucket == target_bucket for f in out.findings)

    def body(case):
      if shrink_state['first_seen']:
        shrink_state['evals_after'] += 1
        if shrink_state['evals_after'] > budget:
          raise _Abort()
      if judge_target(case):
        shrink_state['first_seen'] = True
        shrink_state['last'] = case
        raise _Bucket(target_bucket)

    done = 0
    block = 0
    while done < max(n_examples, 1) and shrink_state['last'] is None:
      n_block = min(1000, max(n_examples, 1) - done)   # the same blocks and seeds as in collect mode

      @hypothesis.seed(hseed + 7919 * block)
      @settings(max_examples=n_block, phases=[Phase.generate, Phase.shrink], **common)
      @given(mod.strategy(tier))
      def shrink_run(case):
        body(case)

      try:
        shrink_run()
      except _Abort:
        pass
      except _Bucket:
        pass
      except Exception:  # flaky etc: keep the last failing case we saw
        st['shrink_note'] = traceback.format_exc()[-1500:]
      done += n_block
      block += 1
    st['shrunk'] = shrink_state['last']

  st['nontrivial_hashes'] = sorted(st['nontrivial_hashes'])
  st['wall'] = time.time() - t0
  return st


def write_replay(prop_id, bucket, case, detail, committed=False):
  sub = 'replays' if committed else os.path.join('out', 'replays')
  d = os.path.join(VERIF, sub, prop_id)
  os.makedirs(d, exist_ok=True)
  h = hashlib.sha1((bucket + json.dumps(case, sort_keys=True, default=repr)).encode()).hexdigest()[:12]
  path = os.path.join(d, f'{h}.json')
  with open(path, 'w') as f:
    json.dump({'property': prop_id, 'bucket': bucket, 'detail': detail,
               'case': case}, f, indent=1, default=repr)
  return path


def run_replay_file(mod, path):
  with open(path) as f:
    data = json.load(f)
  case = data['case']
  out = _judge(mod, case)
  return data, out


def validate_evidence(ev):
  schema_path = '/root/.vp/EVIDENCE.schema.json'
  try:
    import jsonschema
    if os.path.exists(schema_path):
      with open(schema_path) as f:
        jsonschema.validate(ev, json.load(f))
      return
  except ImportError:
    pass
  # built-in minimal validation
  for k in ('property_id', 'tier', 'seed', 'level', 'coverage', 'wall_s'):
    assert k in ev, k
  cov = ev['coverage']
  assert isinstance(cov['evaluations'], int) and cov['evaluations'] >= 1
  assert isinstance(cov['distinct_nontrivial'], int) and cov['distinct_nontrivial'] >= 2
  assert isinstance(cov['rule'], str)
  assert isinstance(cov['samples'], list) and cov['samples']


def main(argv):
  if len(argv) < 2:
    print('usage: check <ID> quick|thorough|--replay <file>', file=sys.stderr)
    return 2
  prop_id = argv[0].upper()
  try:
    setup_paths()
    mod = load_prop(prop_id)
  except Exception:  # pylint: disable=broad-except
    traceback.print_exc()
    print(f'HARNESS-ERROR property={prop_id} import failed')
    return 2

  if argv[1] == '--replay':
    data, out = run_replay_file(mod, argv[2])
    known = {e['bucket'] for e in load_known(prop_id) if e['status'] == 'finding'}
    bad = [f for f in out.findings if f.bucket not in known]
    for f in out.findings:
      print(('KNOWN ' if f.bucket in known else 'FAIL  ') + f.bucket + '\n   ' + f.detail[:1500])
    if out.skipped:
      print('case skipped:', out.skipped)
    if bad:
      print(f'VIOLATION property={prop_id} replay={argv[2]}')
      return 1
    print('replay: no unknown finding')
    return 0

  tier = argv[1]
  if tier not in ('quick', 'thorough'):
    print('tier must be quick or thorough', file=sys.stderr)
    return 2
  try:
    seed = int(os.environ.get('VERIF_SEED', '1'))
  except ValueError:
    seed = 1
  t0 = time.time()
  try:
    return _campaign(mod, prop_id, tier, seed, t0)
  except Exception:  # pylint: disable=broad-except
    traceback.print_exc()
    print(f'HARNESS-ERROR property={prop_id}')
    return 2


def _campaign(mod, prop_id, tier, seed, t0):
  known_entries = load_known(prop_id)
  known_buckets = sorted({e['bucket'] for e in known_entries if e['status'] == 'finding'})
  violations = []  # (bucket, replay_path, detail)
  known_lines = []
  notes = []

  # ---- 1. replay tier: known findings, fixed defects, committed regressions
  replay_dir = os.path.join(VERIF, 'replays', prop_id)
  listed = set()
  replayed = 0
  for e in known_entries:
    rp = e.get('replay')
    if not rp:
      continue
    path = os.path.join(VERIF, rp)
    listed.add(os.path.realpath(path))
    data, out = run_replay_file(mod, path)
    replayed += 1
    buckets = {f.bucket for f in out.findings}
    if e['status'] == 'finding':
      if e['bucket'] in buckets:
        known_lines.append(f"KNOWN-FINDING: property={prop_id} {e['what_fails']} [bucket {e['bucket']}]")
      else:
        notes.append(f"note: listed finding no longer reproduces from its replay: {e['bucket']}")
      for f in out.findings:
        if f.bucket not in known_buckets:
          violations.append((f.bucket, path, f.detail))
    else:  # fixed: suppresses nothing
      for f in out.findings:
        if f.bucket not in known_buckets:
          violations.append((f.bucket, path, f.detail))
  if os.path.isdir(replay_dir):
    for name in sorted(os.listdir(replay_dir)):
      path = os.path.realpath(os.path.join(replay_dir, name))
      if not name.endswith('.json') or path in listed:
        continue
      data, out = run_replay_file(mod, path)
      replayed += 1
      for f in out.findings:
        if f.bucket not in known_buckets:
          violations.append((f.bucket, path, f.detail))

  # ---- 2. generated campaign
  budget = mod.BUDGET[tier]
  nworkers = NWORKERS
  per = (budget + nworkers - 1) // nworkers if budget else 0
  time_limit = float(os.environ.get('VERIF_TIME_LIMIT', mod.__dict__.get('TIME_LIMIT', {}).get(tier, 1500 if tier == 'quick' else 6 * 3600)))
  jobs = [(prop_id, tier, seed, w, nworkers, per, 'collect', None, known_buckets, time_limit)
          for w in range(nworkers)]
  ctx = multiprocessing.get_context('spawn')
  with ctx.Pool(nworkers) as pool:
    results = pool.map(_worker, jobs, chunksize=1)
  errs = [r for r in results if 'harness_error' in r]
  if errs:
    print(errs[0]['harness_error'])
    print(f'HARNESS-ERROR property={prop_id} worker crashed')
    return 2

  evaluations = sum(r['evaluations'] for r in results)
  judged = sum(r['judged'] for r in results)
  hashes = set()
  classes, skipped, known_hits, buckets = {}, {}, {}, {}
  samples = []
  for r in results:
    hashes.update(r['nontrivial_hashes'])
    for k, v in r['classes'].items():
      classes[k] = classes.get(k, 0) + v
    for k, v in r['skipped'].items():
      skipped[k] = skipped.get(k, 0) + v
    for k, v in r['known_hits'].items():
      known_hits[k] = known_hits.get(k, 0) + v
    for b, info in r['buckets'].items():
      cur = buckets.get(b)
      if cur is None or info['size'] < cur['size']:
        total = info['count'] + (cur['count'] if cur else 0)
        buckets[b] = dict(info, count=total, widx=r['widx'])
      else:
        cur['count'] += info['count']
    if len(samples) < 4:
      samples.extend(r['samples'][: 4 - len(samples)])
  budget_skipped = sum(r['budget_skipped'] for r in results)

  # known findings seen in the campaign but without a replay line yet
  for e in known_entries:
    if e['status'] == 'finding' and known_hits.get(e['bucket']) and not any(
        e['bucket'] in l for l in known_lines):
      known_lines.append(f"KNOWN-FINDING: property={prop_id} {e['what_fails']} [bucket {e['bucket']}]")

  # ---- 3. unknown buckets: shrink (bounded) and write replay files
  max_shrink = int(os.environ.get('VERIF_MAX_SHRINK', '3'))
  ordered = sorted(buckets.items(), key=lambda kv: kv[1]['size'])
  shrink_jobs = []
  for b, info in ordered[:max_shrink]:
    if info['origin'] == 'generated' and os.environ.get('VERIF_NO_SHRINK') != '1':
      shrink_jobs.append((prop_id, tier, seed, info['widx'], nworkers, per, 'shrink', b, known_buckets, time_limit))
  shrunk = {}
  if shrink_jobs:
    with ctx.Pool(min(len(shrink_jobs), nworkers)) as pool:
      for job, r in zip(shrink_jobs, pool.map(_worker, shrink_jobs, chunksize=1)):
        if 'harness_error' not in r and r.get('shrunk') is not None:
          shrunk[job[7]] = r['shrunk']
  for b, info in ordered:
    case = info['case']
    cand = shrunk.get(b)
    if cand is not None and len(json.dumps(cand, default=repr)) <= info['size']:
      case = cand
    path = write_replay(prop_id, b, case, info['detail'])
    violations.append((b, path, info['detail']))

  # ---- 4. evidence
  total_cls = max(judged, 1)
  class_frac = {k: round(v / total_cls, 4) for k, v in sorted(classes.items())}
  starved = []
  gen_judged = sum(r.get('gen_judged', 0) for r in results)
  gen_classes = {}
  for r in results:
    for k, v in r.get('gen_classes', {}).items():
      gen_classes[k] = gen_classes.get(k, 0) + v
  if gen_judged >= 200:
    for k, floor in getattr(mod, 'FLOORS', {}).items():
      if gen_classes.get(k, 0) / gen_judged < floor:
        starved.append(f'{k}: {gen_classes.get(k, 0)}/{gen_judged} generated cases < {floor}')
  wall = time.time() - t0
  if not samples:
    samples = [info['case'] for _, info in ordered[:2]]
  ev = {
      'property_id': prop_id,
      'tier': tier,
      'seed': seed,
      'level': 'exploration',
      'coverage': {
          'evaluations': evaluations,
          'judged': judged,
          'distinct_nontrivial': len(hashes),
          'rule': mod.RULE,
          'samples': samples[:4],
          'classes': class_frac,
          'class_counts': dict(sorted(classes.items())),
          'skipped': skipped,
          'excluded_known': known_hits,
          'prerequisite_failed': sum(r['prereq_failed'] for r in results),
          'enumerated': sum(r.get('enumerated', 0) for r in results),
          'generated_class_rates': {k: round(v / max(gen_judged, 1), 4) for k, v in sorted(gen_classes.items())},
          'replayed_files': replayed,
          'workers': nworkers,
          'budget_skipped': budget_skipped,
          'inconclusive_budget': budget_skipped > 0,
          'unknown_buckets': {b: i['count'] for b, i in ordered},
          'exhaustive': False,
      },
      'assumptions': list(getattr(mod, 'ASSUMPTIONS', [])),
      'wall_s': round(wall, 2),
      'violations': len({b for b, _, _ in violations}),
  }
  extra = getattr(mod, 'evidence_extra', None)
  if extra:
    ev['coverage'].update(extra(tier))
  ev_dir = os.environ.get('VERIF_EVIDENCE_DIR') or os.path.join(VERIF, 'evidence')
  os.makedirs(ev_dir, exist_ok=True)
  ev_path = os.path.join(ev_dir, f'{prop_id}.json')
  with open(ev_path, 'w') as f:
    json.dump(ev, f, indent=1, default=repr)

  for l in notes:
    print(l)
  for l in known_lines:
    print(l)
  print(f'{prop_id} {tier} seed={seed}: evaluations={evaluations} judged={judged} '
        f'nontrivial={len(hashes)} known_hits={sum(known_hits.values())} '
        f'unknown_buckets={len(buckets)} wall={wall:.1f}s')
  print('classes:', json.dumps(class_frac))
  if skipped:
    print('skipped:', json.dumps(skipped))

  if violations:
    seen = set()
    for b, path, detail in violations:
      if b in seen:
        continue
      seen.add(b)
      print(f'--- bucket {b}\n    {detail[:1200]}')
      print(f'VIOLATION property={prop_id} replay={path}')
    return 1

  try:
    validate_evidence(ev)
  except Exception as e:  # pylint: disable=broad-except
    print(f'HARNESS-ERROR property={prop_id} evidence invalid: {e}')
    return 2
  if starved:
    print(f'HARNESS-ERROR property={prop_id} starved generator classes: {starved}')
    return 2
  return 0


if __name__ == '__main__':
  sys.exit(main(sys.argv[1:]))
