"""ModelArgs: the argument store of a Buildable as plain Python (oracle for C03/C16).

Named parameters behave like a dict restricted to the signature; the positional
view is a Python list whose non-variadic prefix has fixed length.
"""

import dataclasses
import itertools

import fiddle as fdl

from harness.gen.recipes import ParamInfo

NO_VALUE = fdl.NO_VALUE
UNSET = object()


class Invalid(Exception):
  """The model says the edit is invalid (the real call must raise)."""


class ModelArgs:

  def __init__(self, fn):
    self.fn = fn
    self.info = ParamInfo(fn)
    i = self.info
    self.fixed = [UNSET] * i.npos
    self.var = []
    self.kwonly = {}
    self.extras = {}
    self.factory_fields = set()
    if dataclasses.is_dataclass(fn) and isinstance(fn, type):
      for f in dataclasses.fields(fn):
        if f.default_factory is not dataclasses.MISSING:
          self.factory_fields.add(f.name)

  # ---- construction (mirrors inspect.Signature.bind_partial)
  def init(self, pos, kw):
    i = self.info
    for j, v in enumerate(pos):
      if j < i.npos:
        self.fixed[j] = v
      else:
        self.var.append(v)
    for name, v in kw.items():
      if name in i.poskw:
        self.fixed[i.positional.index(name)] = v
      elif name in i.kwonly:
        self.kwonly[name] = v
      else:
        self.extras[name] = v

  def clone(self):
    m = ModelArgs.__new__(ModelArgs)
    m.fn, m.info, m.factory_fields = self.fn, self.info, self.factory_fields
    m.fixed, m.var = list(self.fixed), list(self.var)
    m.kwonly, m.extras = dict(self.kwonly), dict(self.extras)
    return m

  # ---- views
  def slot_view(self, j):
    v = self.fixed[j]
    if v is not UNSET:
      return v
    name = self.info.positional[j]
    if self.info.has_default[name]:
      return self.info.default[name]
    return NO_VALUE

  def view(self):
    return [self.slot_view(j) for j in range(self.info.npos)] + list(self.var)

  def storage(self):
    """Expected canonical storage dict (int keys for posonly/varargs)."""
    i = self.info
    out = {}
    for j, v in enumerate(self.fixed):
      if v is not UNSET:
        out[i.key_of(j)] = v
    for j, v in enumerate(self.var):
      out[i.npos + j] = v
    out.update(self.kwonly)
    out.update(self.extras)
    return out

  def getattr(self, name):
    """Returns ('value', v) | ('raise', ExcClass)."""
    i = self.info
    if name in i.posonly or (i.varargs and name == _varargs_name(i)):
      return ('raise', AttributeError)
    if name in i.poskw:
      v = self.fixed[i.positional.index(name)]
    elif name in i.kwonly:
      v = self.kwonly.get(name, UNSET)
    else:
      v = self.extras.get(name, UNSET)
    if v is not UNSET:
      return ('value', v)
    if name in self.factory_fields:
      return ('raise', ValueError)
    if name in i.default and name != i.varkw_name:
      return ('value', i.default[name])
    return ('raise', AttributeError)

  def ordered_arguments(self, include_var_keyword=True, include_defaults=False,
                        include_unset=False, include_positional=True,
                        include_equal_to_default=True):
    i = self.info
    out = {}
    for idx, p in enumerate(i.params):
      if p.kind in (p.POSITIONAL_ONLY, p.POSITIONAL_OR_KEYWORD, p.KEYWORD_ONLY):
        if p.kind == p.KEYWORD_ONLY:
          v = self.kwonly.get(p.name, UNSET)
        else:
          v = self.fixed[i.positional.index(p.name)]
        has_def = p.default is not p.empty
        if v is UNSET:
          if has_def:
            if not include_defaults:
              continue
            v = p.default
          elif include_unset:
            v = NO_VALUE
          else:
            continue
        if not include_equal_to_default and has_def and not (v != p.default):
          continue
        out[idx if p.kind == p.POSITIONAL_ONLY else p.name] = v
      elif p.kind == p.VAR_POSITIONAL:
        for j, v in enumerate(self.var):
          out[idx + j] = v
    if include_var_keyword:
      for k, v in self.extras.items():
        out[k] = v
    if not include_positional:
      out = {k: v for k, v in out.items() if isinstance(k, str)}
    return out

  def dir(self):
    i = self.info
    names = set(i.poskw) | set(i.kwonly) | set(self.extras)
    return names

  # ---- edits
  def setattr(self, name, v):
    i = self.info
    if name in i.posonly or (i.varargs and name == _varargs_name(i)):
      raise Invalid('positional-only / variadic name')
    if name in i.poskw:
      self.fixed[i.positional.index(name)] = v
    elif name in i.kwonly:
      self.kwonly[name] = v
    elif i.varkw:
      self.extras[name] = v
    else:
      raise Invalid('unknown name')

  def delattr(self, name):
    i = self.info
    if name in i.poskw and self.fixed[i.positional.index(name)] is not UNSET:
      self.fixed[i.positional.index(name)] = UNSET
    elif name in i.kwonly and name in self.kwonly:
      del self.kwonly[name]
    elif name in self.extras:
      del self.extras[name]
    else:
      raise Invalid('not set')

  def _norm(self, idx):
    n = len(self.fixed) + len(self.var)
    if idx < 0:
      idx += n
    if idx < 0 or idx >= n:
      raise Invalid('index out of range')
    return idx

  def getitem(self, idx):
    return self.view()[idx]  # may raise IndexError

  def setitem(self, idx, v):
    idx = self._norm(idx)
    nf = len(self.fixed)
    if idx < nf:
      self.fixed[idx] = v
    else:
      self.var[idx - nf] = v

  def delitem(self, idx):
    idx = self._norm(idx)
    nf = len(self.fixed)
    if idx < nf:
      self.fixed[idx] = UNSET
    else:
      del self.var[idx - nf]

  def setslice(self, sl, values):
    nf = len(self.fixed)
    view = self.view()
    n = len(view)
    indices = range(*sl.indices(n))
    touches_fixed = any(j < nf for j in indices)
    starts_in_fixed = indices.start < nf if len(indices) == 0 else touches_fixed
    # A slice that lies entirely in *args (or an empty slice positioned there)
    # behaves like list slice assignment; anything reaching into the fixed prefix
    # must not change the length.
    tmp = list(view)
    try:
      tmp[sl] = values
    except ValueError as e:
      raise Invalid(f'list rejects: {e}') from e
    if touches_fixed or (len(indices) == 0 and indices.start < nf) or not self.info.varargs:
      if len(indices) != len(values):
        raise Invalid('length-changing slice over the fixed prefix')
    for pos_, j in enumerate(indices):
      if j < nf:
        self.fixed[j] = values[pos_]
    self.var = tmp[nf:]
    return dict(touches_fixed=touches_fixed, starts_in_fixed=starts_in_fixed)

  def delslice(self, sl):
    nf = len(self.fixed)
    n = nf + len(self.var)
    indices = sorted(range(*sl.indices(n)), reverse=True)
    for j in indices:
      if j < nf:
        self.fixed[j] = UNSET
      else:
        del self.var[j - nf]


def _varargs_name(info):
  for p in info.params:
    if p.kind == p.VAR_POSITIONAL:
      return p.name
  return None


FLAG_COMBOS = [
    dict(include_var_keyword=a, include_defaults=b, include_unset=c,
         include_positional=d, include_equal_to_default=e)
    for a, b, c, d, e in itertools.product([True, False], repeat=5)
    if not (b and not e)
]
