"""C07 — copies are faithful and independent (copy, deepcopy, pickle, cast, copy_with)."""

import copy
import pickle

import fiddle as fdl
from hypothesis import strategies as st

from harness import canon as C
from harness.gen import dags, leaves, recipes
from harness.runner import Outcome, exc_kind, fiddle_frame
import harness.vuni as vuni
from harness.vuni import tags as vtags
from harness.vuni import things

RULE = (
    'Generated: a DAG recipe with Config/Partial/ArgFactory nodes, positional (incl. *args) '
    'and keyword arguments, tags on arguments (with and without values), sharing across '
    'containers, a mutable default made explicit; a copy operation (copy.deepcopy, pickle '
    'round trip, fdl.deepcopy_with, copy.copy, fdl.copy_with, fdl.cast to each Buildable '
    'type); then 1-8 edits on the copy (set/delete arguments, add/remove/set/clear tags, '
    'assign a TaggedValue, for deep copies also on nested nodes and in-place mutation of '
    'containers). Oracle: canonical form (callables, arguments, tags, sharing) of the copy '
    'equals the original\'s; deep copies share no Buildable, argument dict, container, tag '
    'set or history list with the original; shallow copies have a new top-level Buildable, '
    'argument dict, tag sets and history lists while every argument value is the original\'s '
    'object; after every edit the original\'s canonical form (with history) and what it '
    'builds are unchanged. Non-trivial: configuration has tags and a shared container and an '
    'edit touches a tagged argument.'
)
RULE += (' ' + 'Also generated: tags on value-less positional-only parameters of a callable without **kwargs (also at the root), set nodes and plain attribute-holder objects as mutable leaves (deep copies must not share them; they are mutated on the copy).')
RULE += (' ' + 'Round 7: nodes over a callable with Annotated parameters (also as root) whose annotation tags were cleared before the copy.')
RULE += (' ' + 'Rounds 3-5: experimental DictConfig / NamespaceConfig nodes (keys also set by attribute, one named kwargs).')
RULE += (' ' + 'Round 8: a node re-pointed with update_callable at a callable whose unset parameter has a default compared by identity, then copied: the copy equals the original, reports the same default object and builds the same.')
ASSUMPTIONS = [
    'in-place mutation of argument values is only applied to deep copies (shallow copies share values by design)',
    'built graphs compared by canonical form with behavioural probing of partials',
]
BUDGET = {'quick': 16 * 400, 'thorough': 16 * 10000}
FLOORS = {'has_tags': 0.4, 'tagged_edit': 0.15, 'shared_container': 0.078}

DEEP = ['deepcopy', 'pickle', 'deepcopy_with']
SHALLOW = ['copy', 'copy_with', 'cast_Config', 'cast_Partial', 'cast_ArgFactory']
_TAGS = ['TagA', 'TagB', 'TagC', 'TagX']


@st.composite
def strategy_(draw, tier):
  if draw(st.sampled_from(range(8))) == 0:
    # round 8: a node re-pointed with update_callable at a callable whose unset parameter has a
    # default compared by identity, then copied
    return {'retarget_sentinel': True, 'op': draw(st.sampled_from(DEEP + SHALLOW)),
            'bt': draw(st.sampled_from(['Config', 'Partial'])), 'x': draw(leaves.leaf('plain')),
            'wrap': draw(st.sampled_from(['none', 'list', 'child']))}
  recipe = draw(dags.dag(
      max_nodes=10, min_nodes=3, bts=('Config', 'Config', 'Partial'), tags=True,
      kinds=['B', 'B', 'list', 'list', 'tuple', 'dict', 'dict', 'nt', 'Bpos', 'Bmut', 'Bpo', 'set', 'holder', 'Bdictcfg',
             # every other node kind of the shared generator (each once)
             'box', 'TV', 'ddict', 'mdict', 'kdict', 'fset', 'ltuple', 'ntuple', 'Bann', 'Bmut1', 'Bmutnest',
             'Bpo3', 'Bdc', 'Bempty', 'AFP', 'odict', 'dcinst', 'Bclash'],
      fns=['things:f2', 'things:h1', 'things:Base', 'things:LeafCls'], root_kinds=['B', 'Bpos', 'Bpo', 'Bdictcfg', 'Bann'],
      p_alias=0.8, allow_copyof=False, clear_ann_tags=True))
  op = draw(st.sampled_from(DEEP + SHALLOW))
  edits = []
  for _ in range(draw(st.integers(1, 8))):
    kind = draw(st.sampled_from(['setattr', 'setattr', 'delattr', 'add_tag', 'remove_tag',
                                 'set_tags', 'clear_tags', 'tagged_value', 'mutate', 'setitem']))
    edits.append({'kind': kind, 'node': draw(st.integers(0, 30)), 'param': draw(st.integers(0, 10)),
                  'tag': draw(st.sampled_from(_TAGS)), 'val': draw(leaves.leaf('plain'))})
  return {'recipe': recipe, 'op': op, 'edits': edits}


def strategy(tier):
  return strategy_(tier)


def do_copy(op, x):
  if op == 'deepcopy':
    return copy.deepcopy(x)
  if op == 'pickle':
    return pickle.loads(pickle.dumps(x))
  if op == 'deepcopy_with':
    return fdl.deepcopy_with(x)
  if op == 'copy':
    return copy.copy(x)
  if op == 'copy_with':
    return fdl.copy_with(x)
  if op.startswith('cast_'):
    return fdl.cast(getattr(fdl, op[5:]), x)
  raise ValueError(op)


def mutable_objects(root):
  """id -> object for Buildables, their __arguments__ dicts, tag dict + tag sets, history
  dict + lists, and list/dict containers reachable from root."""
  out = {}
  for _, v in C.walk(root):
    if isinstance(v, fdl.Buildable):
      out[id(v)] = v
      out[id(v.__arguments__)] = v.__arguments__
      out[id(v.__argument_tags__)] = v.__argument_tags__
      for s in v.__argument_tags__.values():
        out[id(s)] = s
      out[id(v.__argument_history__)] = v.__argument_history__
      for l in v.__argument_history__.values():
        out[id(l)] = l
    elif isinstance(v, (list, dict, set, bytearray, things.DictObj)):
      out[id(v)] = v
  return out


def _canon_build(x):
  vuni.reset_log()
  try:
    return ('ok', C.Canon(callable_probe=True).term(fdl.build(x)))
  except Exception as e:  # pylint: disable=broad-except
    return ('raises', type(e).__name__)


def _strip_type(term):
  # ('def', n, ('B', typename, ...)) -> same with typename blanked at the root only
  if term[0] == 'def' and term[2][0] == 'B':
    b = term[2]
    return ('def', term[1], (b[0], '*') + b[2:])
  return term


def _named_params(b):
  info = recipes.ParamInfo(b.__fn_or_cls__)
  return info.poskw + info.kwonly, info


def apply_edit(target_root, e, deep):
  """Applies one edit to the copy; returns (touched_tagged, description) or raises."""
  nodes = [v for _, v in C.walk(target_root) if isinstance(v, fdl.Buildable)] if deep else [target_root]
  seen, uniq = set(), []
  for v in nodes:
    if id(v) not in seen:
      seen.add(id(v))
      uniq.append(v)
  b = uniq[e['node'] % len(uniq)]
  names, info = _named_params(b)
  if not names:
    return False, 'no-params'
  name = names[e['param'] % len(names)]
  tagged = bool(b.__argument_tags__.get(name))
  tag = vtags.ALL[e['tag']]
  kind = e['kind']
  val = leaves.dec(e['val'])
  if kind == 'setattr':
    setattr(b, name, val)
  elif kind == 'delattr':
    if name in b.__arguments__:
      delattr(b, name)
  elif kind == 'add_tag':
    fdl.add_tag(b, name, tag)
    tagged = True
  elif kind == 'remove_tag':
    if tag in b.__argument_tags__.get(name, ()):
      fdl.remove_tag(b, name, tag)
      tagged = True
  elif kind == 'set_tags':
    fdl.set_tags(b, name, [tag])
    tagged = True
  elif kind == 'clear_tags':
    fdl.clear_tags(b, name)
  elif kind == 'tagged_value':
    setattr(b, name, tag.new(val))
    tagged = True
  elif kind == 'setitem':
    view = b[:]
    if view:
      b[e['param'] % len(view)] = val
  elif kind == 'mutate':
    if not deep:
      return False, 'skip'
    conts = [v for _, v in C.walk(target_root) if isinstance(v, (list, dict, set, things.DictObj))]
    if not conts:
      return False, 'no-container'
    c = conts[e['node'] % len(conts)]
    if isinstance(c, list):
      c.append(val)
    elif isinstance(c, set):
      c.add('mutated')
    elif isinstance(c, things.DictObj):
      c.mutated = val
    else:
      c['mutated'] = val
  return tagged, kind


def check(case):
  out = Outcome()
  default_snapshot = list(things._MUTABLE_DEFAULT)  # pylint: disable=protected-access
  try:
    return _check(case, out)
  finally:
    things._MUTABLE_DEFAULT[:] = default_snapshot  # pylint: disable=protected-access


def _check_retarget_sentinel(case, out):
  out.cls('retarget_sentinel')
  out.nontrivial = True
  op = case['op']
  out.cls('op_' + op)
  feat = 'retarget-sentinel:' + op
  inner = getattr(fdl, case['bt'])(things.f2, x=leaves.dec(case['x']))
  fdl.update_callable(inner, things.pooled)
  root = {'none': lambda: inner, 'list': lambda: fdl.Config(things.h1, a=[inner, 1]),
          'child': lambda: fdl.Config(things.f2, x='outer', child=inner)}[case['wrap']]()
  build_before = _canon_build(root)
  try:
    cp = do_copy(op, root)
  except Exception as e:  # pylint: disable=broad-except
    out.add('copy-raises', exc_kind(e), fiddle_frame(e), feat, repr(e))
    return out
  cp_inner = {'none': lambda: cp, 'list': lambda: cp.a[0], 'child': lambda: cp.child}[case['wrap']]()
  if not op.startswith('cast_'):  # a cast changes the root's Buildable type
    try:
      eq = (cp == root) and (root == cp)
    except Exception as e:  # pylint: disable=broad-except
      out.add('eq-of-copy-raises', exc_kind(e), fiddle_frame(e), feat, repr(e))
      return out
    if not eq:
      out.add('copy-not-equal-to-original', 'mismatch', '', feat, f'orig={root!r}\ncopy={cp!r}')
      return out
  if cp_inner.pool is not things.DEFAULT_POOL or inner.pool is not things.DEFAULT_POOL:
    out.add('copy-reports-different-default', 'mismatch', '', feat,
            f'copy.pool={cp_inner.pool!r} original.pool={inner.pool!r}')
    return out
  if not op.startswith('cast_') and _canon_build(cp) != build_before:
    out.add('copy-builds-differently', 'mismatch', '', feat, f'orig={root!r}\ncopy={cp!r}')
  return out


def _check(case, out):
  if case.get('retarget_sentinel'):
    return _check_retarget_sentinel(case, out)
  root, objs = dags.build(case['recipe'])
  op = case['op']
  deep = op in DEEP
  has_tags = any(isinstance(v, fdl.Buildable) and any(v.__argument_tags__.values())
                 for _, v in C.walk(root))
  idn = C.identity_nodes(root)
  shared_container = any(isinstance(o, (list, dict)) and len(ps) > 1 for o, ps in idn.values())
  out.cls('op_' + op)
  if has_tags:
    out.cls('has_tags')
  if shared_container:
    out.cls('shared_container')
  feature = op

  orig_before = C.canon(root, history=True)
  orig_plain = C.canon(root)
  build_before = _canon_build(root)
  mo_orig = mutable_objects(root)
  try:
    cp = do_copy(op, root)
  except Exception as e:  # pylint: disable=broad-except
    out.add('copy-raises', exc_kind(e), fiddle_frame(e), feature, repr(e))
    return out
  cp_canon = C.canon(cp)
  if op.startswith('cast_'):
    want = op[5:]
    if type(cp).__name__ != want:
      out.add('cast-wrong-type', 'mismatch', '', feature, type(cp).__name__)
      return out
    if _strip_type(cp_canon) != _strip_type(orig_plain):
      out.add('copy-not-faithful', 'mismatch', '', feature,
              f'orig {str(orig_plain)[:600]}\ncopy {str(cp_canon)[:600]}')
      return out
  elif cp_canon != orig_plain:
    out.add('copy-not-faithful', 'mismatch', '', feature,
            f'orig {str(orig_plain)[:600]}\ncopy {str(cp_canon)[:600]}')
    return out
  if C.canon(root, history=True) != orig_before:
    out.add('copying-modified-original', 'mismatch', '', feature, '')
    return out
  mo_copy = mutable_objects(cp)
  if deep:
    shared = set(mo_orig) & set(mo_copy)
    if shared:
      kinds = sorted({type(mo_orig[i]).__name__ for i in shared})
      out.add('deep-copy-shares-mutable-object', 'identity', '', feature + ':' + ','.join(kinds),
              f'{len(shared)} shared objects of kinds {kinds}')
      return out
  else:
    if cp is root:
      out.add('shallow-copy-is-original', 'identity', '', feature, '')
      return out
    top = [cp.__arguments__, cp.__argument_tags__, cp.__argument_history__]
    top += list(cp.__argument_tags__.values()) + list(cp.__argument_history__.values())
    bad = [type(o).__name__ for o in top if id(o) in mo_orig]
    if bad:
      out.add('shallow-copy-shares-top-level-state', 'identity', '', feature + ':' + ','.join(sorted(set(bad))),
              str(bad))
      return out
    for k, v in cp.__arguments__.items():
      if k not in root.__arguments__ or root.__arguments__[k] is not v:
        if not C.is_internable(v):
          out.add('shallow-copy-copied-a-value', 'identity', '', feature, repr(k))
          return out

  tagged_edit = False
  for ei, e in enumerate(case['edits']):
    try:
      t, desc = apply_edit(cp, e, deep)
    except Exception as ex:  # edits may legitimately be rejected (C03/C14 own that)
      out.cls('edit_rejected')
      t, desc = False, 'rejected:' + type(ex).__name__
    tagged_edit = tagged_edit or t
    if C.canon(root, history=True) != orig_before:
      out.add('edit-on-copy-changed-original', 'mismatch', '', feature + ':' + e['kind'],
              f'edit {ei} {e} ({desc})')
      return out
    if e['kind'] in ('mutate', 'tagged_value', 'setattr') and _canon_build(root) != build_before:
      out.add('edit-on-copy-changed-what-original-builds', 'mismatch', '', feature + ':' + e['kind'],
              f'edit {ei} {e}')
      return out
  if _canon_build(root) != build_before:
    out.add('edit-on-copy-changed-what-original-builds', 'mismatch', '', feature, 'after all edits')
  if tagged_edit:
    out.cls('tagged_edit')
  out.nontrivial = has_tags and shared_container and tagged_edit
  return out
