"""C16 — argument history is a faithful, ordered log of edits."""

import threading
import contextlib
import copy

import fiddle as fdl
from fiddle._src import history as H
from fiddle._src import materialize
from fiddle._src import tagging
from hypothesis import strategies as st

from harness import argmodel as M
from harness import canon as C
from harness.gen import recipes
from harness.runner import Outcome, exc_kind, fiddle_frame
from harness.vuni import tags as vtags
from harness.vuni import sigs
import harness.vuni as vuni

RULE = (
    'Generated: two configurations over generated signature shapes and a history of up to 40 '
    'operations on them: the C03 edits (set/del by name, index, negative index, VARARGS, slice, '
    'incl. *args shifts) plus add/remove/set/clear tags, TaggedValue assignment, fdl.assign, '
    'fdl.copy_with, materialize_defaults, update_callable and nested suspend_tracking '
    'enter/exit. Oracle (after every step): for every key whose stored value changed exactly one '
    'NEW_VALUE entry was appended whose value is the stored object (or DELETED), unchanged keys '
    'got at most one, the other configuration got none; while suspended (own nesting model) no '
    'history list grows; outside suspension the last NEW_VALUE entry of each key is its current '
    'value/DELETED and the last UPDATE_TAGS entry its current tag set (keys edited while '
    'suspended are exempt until their next tracked edit); sequence ids of new entries exceed all '
    'earlier ones and are pairwise distinct; entries created by a direct API call are located in '
    'this file; a fresh configuration with the same final arguments is == and builds the same. '
    'Non-trivial: history contains an *args shift and an edit made while suspended.'
)
RULE += (' ' + 'Round 7: construction with TaggedValues for parameters that are also tagged through an Annotated annotation (last tag entry = current tag set).')
RULE += (' ' + 'Rounds 3-5: the configuration a copy_with was taken from stays unchanged; tag operations by index; rejected operations (update_callable to an incompatible callable) change nothing; threaded ops also while the main thread is suspended; edits inside a recursive @suspend_tracking() function; tracking flag checked after every operation.')
ASSUMPTIONS = [
    'the argument state after each edit is judged by C03; C16 compares the log with the actual stored state',
    'unchanged-but-rewritten keys may log 0 or 1 entry',
    'thread clause: ops marked thread run in a fresh thread that is started and joined (sequential program order); arbitrary interleavings are decided in C19',
]
BUDGET = {'quick': 16 * 1200, 'thorough': 16 * 12000}
FLOORS = {'varargs_shift': 0.143, 'suspended_edit': 0.237, 'tag_edit': 0.379}

_NAMES_EXTRA = ['z0', 'nope']
_TAGS = ['TagA', 'TagB', 'TagX']
_THIS_FILE = __file__


@st.composite
def strategy_(draw, tier):
  if draw(st.sampled_from(range(20))) == 0:
    # construction: parameters tagged through an Annotated annotation that also receive a
    # TaggedValue (other tags) in the constructor call; then a few tag edits
    return {'annotated_ctor': True, 'bt': draw(st.sampled_from(['Config', 'Partial'])),
            'tv': draw(st.lists(st.tuples(st.sampled_from(['p0_pos', 'a_pos', 'a_kw', 'k_kw', 'z0_kw']),
                                          st.lists(st.sampled_from(['TagA', 'TagB', 'TagX', 'TagC']), min_size=1, max_size=2, unique=True)),
                                min_size=1, max_size=3, unique_by=lambda t: t[0][0])),
            'edits': draw(st.lists(st.tuples(st.sampled_from(['add_tag', 'remove_tag', 'tagged_value']),
                                             st.sampled_from(['a', 'k', 'z0']),
                                             st.sampled_from(['TagA', 'TagB', 'TagX', 'TagC'])), max_size=3))}
  specs, models, names = [], [], []
  counter = [0]

  def val():
    counter[0] += 1
    return f'v{counter[0]}'

  inits = []
  for _ in range(2):
    fnspec = {'kind': draw(st.sampled_from(['fn', 'fn', 'Cls'])), 'code': draw(recipes.shape_codes())}
    fn = recipes.resolve_fn(fnspec)
    info = recipes.ParamInfo(fn)
    npos0 = draw(st.integers(0, info.npos))
    pos = [val() for _ in range(npos0)]
    if info.varargs and npos0 == info.npos:
      pos += [val() for _ in range(draw(st.integers(0, 3)))]
    kw = {}
    for name in info.positional[max(npos0, len(info.posonly)):] + info.kwonly:
      if draw(st.booleans()):
        kw[name] = val()
    m = M.ModelArgs(fn)
    m.init(pos, kw)
    specs.append(fnspec)
    models.append(m)
    inits.append({'pos': pos, 'kw': kw})
    names.append(info.poskw + info.kwonly + _NAMES_EXTRA + info.posonly[:1])
  kinds = ['set_attr', 'set_attr', 'del_attr', 'set_item', 'del_item', 'set_slice', 'set_slice', 'del_slice',
           'add_tag', 'remove_tag', 'set_tags', 'clear_tags', 'tagged_value', 'assign', 'copy_with',
           'materialize', 'update_callable', 'update_callable_bad', 'suspend_enter', 'suspend_enter', 'suspend_exit',
           'decorated_edit']
  ops = []
  for _ in range(draw(st.integers(1, 40 if tier == 'thorough' else 28))):
    c = draw(st.integers(0, 1))
    model = models[c]
    info = model.info
    kind = draw(st.sampled_from(kinds))
    n = len(model.fixed) + len(model.var)
    idxs = list(range(-(n + 1), n + 1)) + (['V', 'V'] if info.varargs else [])
    bounds = [None, None] + list(range(-(n + 1), n + 2)) + (['V', 'V', 'V'] if info.varargs else [])
    op = {'c': c, 'k': kind}
    if kind == 'decorated_edit':
      op['depth'] = draw(st.integers(0, 3))
    if kind in ('set_attr', 'del_attr', 'add_tag', 'remove_tag', 'set_tags', 'clear_tags', 'tagged_value',
                'assign', 'copy_with', 'decorated_edit'):
      op['name'] = draw(st.sampled_from(names[c]))
      op['val'] = val()
      op['tag'] = draw(st.sampled_from(_TAGS))
      if kind in ('add_tag', 'remove_tag', 'set_tags', 'clear_tags') and draw(st.floats(0, 1)) < 0.35:
        op['name'] = draw(st.integers(0, info.npos + 1))   # the tag APIs also take a positional index
    elif kind in ('set_item', 'del_item'):
      op['idx'] = draw(st.sampled_from(idxs))
      op['val'] = val()
    elif kind in ('set_slice', 'del_slice'):
      sl = [draw(st.sampled_from(bounds)), draw(st.sampled_from(bounds)), draw(st.sampled_from([None, None, 1, 2, -1]))]
      op['sl'] = sl
      if kind == 'set_slice':
        nf = len(model.fixed)
        f = lambda x: nf if x == 'V' else x
        k = len(range(*slice(f(sl[0]), f(sl[1]), sl[2]).indices(n)))
        cnt = draw(st.sampled_from([k, k, k + 1, max(0, k - 1), 0]))
        op['vals'] = [val() for _ in range(cnt)]
    if kind not in ('suspend_enter', 'suspend_exit') and draw(st.floats(0, 1)) < 0.15:
      op['thread'] = True   # executed by a fresh thread (started and joined: program order is kept)
    ops.append(op)
    # advance the operand model (best effort)
    try:
      nf = len(model.fixed)
      f = lambda x: nf if x == 'V' else x
      if kind in ('set_attr', 'assign', 'copy_with', 'tagged_value'):
        model.setattr(op['name'], op['val'])
      elif kind == 'del_attr':
        model.delattr(op['name'])
      elif kind == 'set_item':
        model.setitem(f(op['idx']), op['val'])
      elif kind == 'del_item':
        model.delitem(f(op['idx']))
      elif kind == 'set_slice':
        model.setslice(slice(f(op['sl'][0]), f(op['sl'][1]), op['sl'][2]), op['vals'])
      elif kind == 'del_slice':
        model.delslice(slice(f(op['sl'][0]), f(op['sl'][1]), op['sl'][2]))
    except (M.Invalid, IndexError):
      pass
  return {'fns': specs, 'inits': inits, 'ops': ops}


def strategy(tier):
  return strategy_(tier)


def _ix(j):
  return fdl.VARARGS if j == 'V' else j


def _do_op(cfgs, op, stack):
  """Executes one op (a *direct API call from this file*). May replace cfgs[c]."""
  c = op['c']
  cfg = cfgs[c]
  k = op['k']
  if k == 'set_attr':
    setattr(cfg, op['name'], op['val'])
  elif k == 'del_attr':
    delattr(cfg, op['name'])
  elif k == 'set_item':
    cfg[_ix(op['idx'])] = op['val']
  elif k == 'del_item':
    del cfg[_ix(op['idx'])]
  elif k == 'set_slice':
    cfg[slice(_ix(op['sl'][0]), _ix(op['sl'][1]), op['sl'][2])] = list(op['vals'])
  elif k == 'del_slice':
    del cfg[slice(_ix(op['sl'][0]), _ix(op['sl'][1]), op['sl'][2])]
  elif k == 'add_tag':
    tagging.add_tag(cfg, op['name'], vtags.ALL[op['tag']])
  elif k == 'remove_tag':
    tagging.remove_tag(cfg, op['name'], vtags.ALL[op['tag']])
  elif k == 'set_tags':
    tagging.set_tags(cfg, op['name'], [vtags.ALL[op['tag']]])
  elif k == 'clear_tags':
    tagging.clear_tags(cfg, op['name'])
  elif k == 'tagged_value':
    setattr(cfg, op['name'], vtags.ALL[op['tag']].new(op['val']))
  elif k == 'assign':
    fdl.assign(cfg, **{op['name']: op['val']})
  elif k == 'copy_with':
    cfgs[c] = fdl.copy_with(cfg, **{op['name']: op['val']})
  elif k == 'materialize':
    materialize.materialize_defaults(cfg)
  elif k == 'update_callable':
    fn = cfg.__fn_or_cls__
    code = fn.__vshape__.code
    other = getattr(sigs, ('Cls_' if fn.__name__.startswith('fn_') else 'fn_') + code)
    fdl.update_callable(cfg, other)
  elif k == 'update_callable_bad':
    # a callable without parameters: rejected (TypeError) whenever the configuration holds any argument
    fdl.update_callable(cfg, sigs.fn_p0k0d0nqn)
  elif k == 'decorated_edit':
    # the edit happens inside a (recursive) function decorated with @suspend_tracking()
    _decorated(op['depth'], lambda: setattr(cfg, op['name'], op['val']))
  elif k == 'suspend_enter':
    cm = H.suspend_tracking()
    cm.__enter__()
    stack.append(cm)
  elif k == 'suspend_exit':
    if stack:
      stack.pop().__exit__(None, None, None)


@H.suspend_tracking()
def _decorated(depth, fn):
  if depth > 0:
    return _decorated(depth - 1, fn)
  return fn()


def _in_thread(fn):
  box = []

  def run():
    try:
      fn()
    except BaseException as e:  # pylint: disable=broad-except
      box.append(e)

  t = threading.Thread(target=run)
  t.start()
  t.join()
  if box:
    raise box[0]


def _state(cfg):
  return (dict(cfg.__arguments__),
          {k: frozenset(v) for k, v in cfg.__argument_tags__.items() if v},   # an empty set is no tag
          {k: list(v) for k, v in cfg.__argument_history__.items()})


def check_annotated_ctor(case, out):
  from harness.vuni import things
  out.cls('annotated_ctor', 'tag_edit')
  out.nontrivial = True
  pos, kw = [], {}
  where = dict(case['tv'])
  mk = lambda names, v: fdl.TaggedValue([vtags.ALL[n] for n in names], v)
  if 'p0_pos' in where or 'a_pos' in where:
    pos.append(mk(where['p0_pos'], 'v-p0') if 'p0_pos' in where else 'plain-p0')
  if 'a_pos' in where:
    pos.append(mk(where['a_pos'], 'v-a'))
  elif 'a_kw' in where:
    kw['a'] = mk(where['a_kw'], 'v-a')
  if 'k_kw' in where:
    kw['k'] = mk(where['k_kw'], 'v-k')
  if 'z0_kw' in where:
    kw['z0'] = mk(where['z0_kw'], 'v-z0')
  cfg = getattr(fdl, case['bt'])(things.annotated_po, *pos, **kw)

  def invariant(step):
    for key, lst in cfg.__argument_history__.items():
      if key == '__fn_or_cls__':
        continue
      uts = [e for e in lst if e.kind == H.ChangeKind.UPDATE_TAGS]
      cur = frozenset(cfg.__argument_tags__.get(key, ()))
      if uts and uts[-1].new_value != cur:
        out.add('last-tag-entry-is-not-current-tags', 'mismatch', '', 'annotated-constructor',
                f'{step}: key {key!r} logged {sorted(t.name for t in uts[-1].new_value)} current {sorted(t.name for t in cur)}')
        return False
      if cur and not uts:
        out.add('tag-change-not-logged', 'mismatch', '', 'annotated-constructor', f'{step}: key {key!r}')
        return False
    for key, ts in cfg.__argument_tags__.items():
      if ts and not any(e.kind == H.ChangeKind.UPDATE_TAGS for e in cfg.__argument_history__.get(key, [])):
        out.add('tag-change-not-logged', 'mismatch', '', 'annotated-constructor', f'{step}: key {key!r}')
        return False
    return True

  if not invariant('after construction'):
    return out
  for i, (kind, name, tag) in enumerate(case['edits']):
    t = vtags.ALL[tag]
    try:
      if kind == 'add_tag':
        fdl.add_tag(cfg, name, t)
      elif kind == 'remove_tag':
        fdl.remove_tag(cfg, name, t)
      else:
        setattr(cfg, name, fdl.TaggedValue([t], f'e{i}'))
    except ValueError:
      pass  # removing a tag that is not there
    if not invariant(f'edit {i} {kind} {name} {tag}'):
      return out
  return out


def check(case):
  out = Outcome()
  if case.get('annotated_ctor'):
    return check_annotated_ctor(case, out)
  stack = []
  try:
    return _check(case, out, stack)
  finally:
    while stack:
      stack.pop().__exit__(None, None, None)
    H.set_tracking(True)


def _check(case, out, stack):
  cfgs = []
  for spec, init in zip(case['fns'], case['inits']):
    fn = recipes.resolve_fn(spec)
    cfgs.append(fdl.Config(fn, *init['pos'], **init['kw']))
  max_seq = -1
  for cfg in cfgs:
    for entries in cfg.__argument_history__.values():
      for e in entries:
        max_seq = max(max_seq, e.sequence_id)
  dirty = [set(), set()]       # keys edited while suspended (value)
  dirty_tags = [set(), set()]
  shifted = suspended_edit = tag_edit = threaded = False
  retired = []                 # (configuration that was copied from, its state at that time)

  for oi, op in enumerate(case['ops']):
    c = op['c']
    k = op['k']
    before = [_state(cfg) for cfg in cfgs]
    old_cfg = cfgs[c]
    depth_before = len(stack)
    # a fresh thread has its own tracking flag (enabled), whatever the main thread suspended
    in_thread = bool(op.get('thread'))
    try:
      if in_thread:
        _in_thread(lambda: _do_op(cfgs, op, stack))
        threaded = True
      else:
        _do_op(cfgs, op, stack)
      raised = None
    except Exception as e:  # pylint: disable=broad-except
      raised = e
    feat = k + (':thread' if in_thread else '')
    if k in ('suspend_enter', 'suspend_exit'):
      # tracking flag must follow the nesting model
      want = len(stack) == 0
      if H.tracking_enabled() != want:
        out.add('tracking-flag-wrong-after-suspend-op', 'mismatch', '', k + f':depth{min(len(stack), 2)}',
                f'op {oi}: enabled={H.tracking_enabled()} with nesting depth {len(stack)}')
        return out
      continue
    suspended = (depth_before > 0 and not in_thread) or k == 'decorated_edit'
    if not in_thread and H.tracking_enabled() != (len(stack) == 0):
      out.add('tracking-flag-wrong-after-operation', 'mismatch', '', k,
              f'op {oi} {op}: enabled={H.tracking_enabled()} with nesting depth {len(stack)}')
      return out
    if k == 'copy_with' and raised is None and cfgs[c] is not old_cfg:
      # the copy carries the original's history plus the new entries; the original is untouched,
      # now and under every later edit of the copy
      retired.append((old_cfg, before[c]))
    for r_cfg, r_state in retired:
      if _state(r_cfg) != r_state:
        out.add('copy-or-edit-of-copy-changed-the-original', 'mismatch', '', feat,
                f'op {oi} {op}: history/arguments/tags of the copied-from configuration changed')
        return out
    after = [_state(cfg) for cfg in cfgs]
    if raised is not None and after != before:
      # an operation that was rejected must not leave entries (or changes) behind
      what = 'history' if [a[:2] for a in after] == [b[:2] for b in before] else 'arguments-or-tags'
      out.add('rejected-operation-changed-' + what, 'mismatch', '', feat, f'op {oi} {op}: {raised!r}'[:400])
      return out
    if k.endswith('slice') or k.endswith('item'):
      va0 = {kk for kk in before[c][0] if isinstance(kk, int)}
      va1 = {kk for kk in after[c][0] if isinstance(kk, int)}
      if va0 != va1:
        shifted = True
    # other configuration: untouched
    oc = 1 - c
    if after[oc] != before[oc] and cfgs[0] is not cfgs[1]:
      out.add('edit-logged-on-or-changed-other-config', 'mismatch', '', feat, f'op {oi} {op}')
      return out
    args0, tags0, hist0 = before[c]
    args1, tags1, hist1 = after[c]
    new_entries = {}
    for key, lst in hist1.items():
      prev = hist0.get(key, [])
      if lst[:len(prev)] != prev:
        out.add('history-rewritten', 'mismatch', '', feat, f'op {oi} {op}: key {key!r}')
        return out
      if len(lst) > len(prev):
        new_entries[key] = lst[len(prev):]
    if set(hist0) - set(hist1):
      out.add('history-rewritten', 'mismatch', '', feat, f'op {oi} {op}: keys dropped')
      return out
    changed = {key for key in set(args0) | set(args1)
               if (key in args0) != (key in args1) or (key in args0 and args0[key] is not args1[key])}
    tags_changed = {key for key in set(tags0) | set(tags1) if tags0.get(key, frozenset()) != tags1.get(key, frozenset())}
    if tags_changed or k.endswith('tag') or k.endswith('tags'):
      tag_edit = True
    if suspended:
      if changed or tags_changed:
        suspended_edit = True
      if new_entries:
        out.add('history-grew-while-suspended', 'mismatch', '', feat + f':depth{min(depth_before, 2)}',
                f'op {oi} {op}: {list(new_entries)}')
        return out
      dirty[c] |= changed
      dirty_tags[c] |= tags_changed
      continue
    all_new = [e for lst in new_entries.values() for e in lst]
    for e in all_new:
      if e.sequence_id <= max_seq:
        out.add('sequence-id-not-increasing', 'mismatch', '', feat, f'op {oi} {op}: {e.sequence_id} <= {max_seq}')
        return out
    ids = [e.sequence_id for e in all_new]
    if len(set(ids)) != len(ids):
      out.add('sequence-id-duplicated', 'mismatch', '', feat, f'op {oi} {op}: {ids}')
      return out
    if ids:
      max_seq = max(ids)
    for e in all_new:
      if e.location.filename != _THIS_FILE:
        # recorded, but the history keeps being judged (the tag APIs are a listed known finding)
        out.add('entry-located-in-fiddle-internals', 'location', '', k,
                f'op {oi} {op}: {e.location}')
        break
    for key in changed:
      nv = [e for e in new_entries.get(key, []) if e.kind == H.ChangeKind.NEW_VALUE]
      if len(nv) != 1:
        out.add('changed-key-entry-count', 'mismatch', '', feat + f':{len(nv)}',
                f'op {oi} {op}: key {key!r} got {len(nv)} NEW_VALUE entries')
        return out
      want = args1[key] if key in args1 else H.DELETED
      if nv[0].new_value is not want:
        out.add('entry-value-is-not-stored-value', 'mismatch', '', feat,
                f'op {oi} {op}: key {key!r} entry {nv[0].new_value!r} stored {want!r}')
        return out
      dirty[c].discard(key)
    for key, lst in new_entries.items():
      if key in changed or key == '__fn_or_cls__':
        continue
      nv = [e for e in lst if e.kind == H.ChangeKind.NEW_VALUE]
      if len(nv) > 1:
        out.add('unchanged-key-logged-repeatedly', 'mismatch', '', feat,
                f'op {oi} {op}: key {key!r} got {len(nv)} NEW_VALUE entries')
        return out
      if nv:
        dirty[c].discard(key)
    for key in tags_changed:
      ut = [e for e in new_entries.get(key, []) if e.kind == H.ChangeKind.UPDATE_TAGS]
      if not ut:
        out.add('tag-change-not-logged', 'mismatch', '', feat, f'op {oi} {op}: key {key!r}')
        return out
      dirty_tags[c].discard(key)
    for key, lst in new_entries.items():
      if any(e.kind == H.ChangeKind.UPDATE_TAGS for e in lst):
        dirty_tags[c].discard(key)
    # global invariant: last entries describe the current state
    cfg = cfgs[c]
    for key, lst in cfg.__argument_history__.items():
      if key == '__fn_or_cls__':
        continue
      nvs = [e for e in lst if e.kind == H.ChangeKind.NEW_VALUE]
      if nvs and key not in dirty[c]:
        want = cfg.__arguments__[key] if key in cfg.__arguments__ else H.DELETED
        if nvs[-1].new_value is not want:
          out.add('last-entry-is-not-current-value', 'mismatch', '', feat,
                  f'op {oi} {op}: key {key!r} last {nvs[-1].new_value!r} current {want!r}')
          return out
      uts = [e for e in lst if e.kind == H.ChangeKind.UPDATE_TAGS]
      if uts and key not in dirty_tags[c]:
        cur = frozenset(cfg.__argument_tags__.get(key, ()))
        if uts[-1].new_value != cur:
          out.add('last-tag-entry-is-not-current-tags', 'mismatch', '', feat,
                  f'op {oi} {op}: key {key!r} last {set(uts[-1].new_value)} current {set(cur)}')
          return out
    for key in cfg.__arguments__:
      if key not in dirty[c] and not any(e.kind == H.ChangeKind.NEW_VALUE for e in cfg.__argument_history__.get(key, [])):
        out.add('set-argument-without-history', 'mismatch', '', feat, f'op {oi} {op}: key {key!r}')
        return out

  # history never influences equality / building
  for cfg in cfgs:
    fresh = fdl.Config(cfg.__fn_or_cls__)
    try:
      for key in sorted((k for k in cfg.__arguments__ if isinstance(k, int))):
        fresh[key] = cfg.__arguments__[key]
      for key, v in cfg.__arguments__.items():
        if isinstance(key, str):
          setattr(fresh, key, v)
    except Exception:  # pylint: disable=broad-except
      continue
    if dict(fresh.__arguments__) != dict(cfg.__arguments__):
      continue
    for key, ts in cfg.__argument_tags__.items():
      for t in ts:
        fresh.__argument_tags__[key].add(t)
    try:
      eq = cfg == fresh
    except Exception as e:  # pylint: disable=broad-except
      out.add('eq-raises', exc_kind(e), fiddle_frame(e), '', repr(e)[:200])
      continue
    if not eq:
      out.add('history-influences-equality', 'mismatch', '', '', f'{cfg!r} vs {fresh!r}'[:600])
    else:
      def b(x):
        vuni.reset_log()
        try:
          return ('ok', C.canon(fdl.build(x)))
        except Exception as e:  # pylint: disable=broad-except
          return ('raises', type(e).__name__)
      if b(cfg) != b(fresh):
        out.add('history-influences-build', 'mismatch', '', '', repr(cfg)[:300])
  if shifted:
    out.cls('varargs_shift')
  if threaded:
    out.cls("threaded_edit")
  if suspended_edit:
    out.cls('suspended_edit')
  if tag_edit:
    out.cls('tag_edit')
  out.nontrivial = shifted and suspended_edit
  return out
