"""C06 — == on Buildables is an equivalence relation congruent with build."""

import copy
import json
import pickle

import fiddle as fdl
from hypothesis import strategies as st

from harness import canon as C
from harness.gen import dags, leaves
from harness.runner import Outcome, exc_kind, fiddle_frame
import harness.vuni as vuni
from harness.vuni import things

RULE = (
    'Generated: a base DAG recipe x (Config/Partial nodes over functions and classes incl. a '
    'callable with positional-only defaults, lists, tuples, named tuples, dicts with keys of '
    'mixed types, NaN-free leaves, aliasing, equal-but-distinct copies), then y = r1(x), '
    'z = r2(y) with each r an equality-preserving rewrite (deepcopy, pickle round trip, '
    'rebuild, default made explicit, dict re-inserted in reverse order, different edit '
    'history) or a single equality-breaking rewrite (one leaf changed, callable swapped for '
    'one with the same signature, Config<->Partial, one alias to a Buildable/list/dict '
    'redirected to an equal copy, two equal copies merged). Oracle: ==/!= never raise; '
    'reflexive, symmetric, transitive; != is not ==; preserving rewrites give True, breaking '
    'ones False; x == y implies canonical forms (with sharing, Partials behaviourally) of '
    'build(x) and build(y) are equal. Non-trivial: pair differs in aliasing only, or contains '
    'a mixed-key dict, or a default made explicit.'
)
RULE += (' ' + 'Also generated: kw-only parameters with defaults; the breaking rewrite alias_retarget (a later reference re-pointed at another already-visited object) and a nested-alias scenario.')
RULE += (' ' + 'Rounds 3-5: shared set nodes; breaking rewrite nt_to_tuple; **kwargs callables; nodes over a callable with a mutable default.')
ASSUMPTIONS = [
    'NaN leaves excluded (property excludes them)',
    'alias rewrites touch only non-internable objects; == deliberately ignores sharing of internables',
    'two breaking rewrites in a row give no expectation for x == z (they may cancel)',
]
RULE += (' ' + 'Round 7: named tuples of plain literals (retyped to plain tuples by nt_to_tuple).')
RULE += (' ' + 'Round 6: a parameter whose default is a sentinel object compared by identity: unset, explicit, and a copy (deepcopy / pickle / copy / copy_with / deepcopy_with / identity traversal) of the unset one are pairwise equal.')
BUDGET = {'quick': 16 * 500, 'thorough': 16 * 12000}
RULE += (' ' + 'Round 8: a mutable default left unset at 2-3 sites is equal to one explicit equal list shared by those sites and unequal to separate equal lists (the builds differ in sharing).')
FLOORS = {'alias_only_pair': 0.03, 'mixed_key_dict': 0.012, 'explicit_default': 0.05, 'r1_intern_redirect': 0.013}

PRESERVING = ['deepcopy', 'pickle', 'rebuild', 'explicit_default', 'dict_reorder', 'history',
              'intern_redirect']
BREAKING = ['leaf_change', 'fn_swap', 'bt_swap', 'alias_redirect', 'merge', 'alias_retarget', 'nt_to_tuple']
_SWAP = {'things:Base': 'things:Other', 'things:Other': 'things:Base', 'things:f2': 'things:Base',
         'things:Mid': 'things:Other', 'things:LeafCls': 'things:Other', 'things:h1': None,
         'things:po2': None}
_DEFAULTS = {'things:f2': {'y': 'd_y', 'x': None, 'child': None},
             'things:Base': {'y': 'd_y', 'x': None, 'child': None},
             'things:Other': {'y': 'd_y', 'x': None, 'child': None},
             'things:Mid': {'y': 'd_y', 'child': None},
             'things:LeafCls': {'y': 'd_y', 'extra': 'd_extra', 'child': None},
             'things:h1': {'b': None, 'c': None, 'd': None, 'e': None},
             'things:kwdef': {'scale': 1.0, 'child': None}}


_OTHER_PARAMS = {'things:h1': ['b', 'c', 'd', 'e'], 'things:kwdef': ['scale', 'child']}


def _free_param(root):
  names = _OTHER_PARAMS.get(root['fn']['name'], ['y', 'child'])
  for n in reversed(names):
    if n not in root['kw']:
      return n
  return names[-1]


_SENTINEL_OPS = ['deepcopy', 'pickle', 'copy', 'copy_with', 'deepcopy_with', 'unflatten']


@st.composite
def strategy_(draw, tier):
  if draw(st.sampled_from(range(25))) == 0:
    # a parameter whose default is a sentinel compared by identity: unset, explicitly set to
    # the default, and an (identity-preserving-for-defaults) copy of the unset one
    return {'sentinel_default': True, 'op': draw(st.sampled_from(_SENTINEL_OPS)),
            'wrap': draw(st.sampled_from(['none', 'list', 'child', 'dict'])),
            'x': draw(leaves.leaf('plain')), 'bt': draw(st.sampled_from(['Config', 'Partial']))}
  if draw(st.sampled_from(range(25))) == 1:
    # round 8: a mutable default left unset at several sites (the built objects alias the one
    # default object) vs one explicit equal list shared by the sites vs separate equal lists
    return {'mutable_default_sites': True, 'sites': draw(st.integers(2, 3)),
            'wrap': draw(st.sampled_from(['args', 'list'])), 'bt': draw(st.sampled_from(['Config', 'Partial']))}
  if draw(st.floats(0, 1)) < 0.08:
    # aliases inside a nested Buildable whose targets are first visited through earlier
    # arguments of the root
    mk = lambda fn, **kw: {'k': 'B', 'bt': 'Config', 'fn': {'kind': 'sym', 'name': fn}, 'pos': [], 'kw': kw, 'edits': []}
    inner = draw(st.sampled_from(['things:f2', 'things:Base']))
    nodes = [mk(inner, x={'leaf': draw(leaves.leaf('plain'))}), {'k': 'copyof', 'of': 0}]
    slots = draw(st.permutations(['b', 'c', 'd', 'e']))
    nodes.append(mk('things:h1', a={'leaf': 'pair'}, **{slots[0]: 0, slots[1]: draw(st.sampled_from([0, 1]))}))
    rs = draw(st.permutations(['b', 'c', 'd']))
    nodes.append(mk('things:h1', a={'leaf': 'root'}, **{rs[0]: 0, rs[1]: 1, 'e': 2}))
    return {'recipe': {'nodes': nodes, 'root': 3},
            'r1': [draw(st.sampled_from(['alias_retarget', 'alias_retarget', 'alias_redirect', 'merge'])), draw(st.integers(0, 50))],
            'r2': [draw(st.sampled_from(PRESERVING)), draw(st.integers(0, 50))]}
  recipe = draw(dags.dag(
      max_nodes=10, min_nodes=3, leaf_profile='nan_free', bts=('Config', 'Config', 'Partial'),
      kinds=['B', 'B', 'B', 'list', 'tuple', 'dict', 'mdict', 'mdict', 'nt', 'ltuple', 'ntuple', 'set', 'set', 'set', 'Bmut1',
             # further node kinds of the shared generator that this check's oracle handles (each once)
             'TV', 'ddict', 'kdict', 'fset', 'Bpos', 'Bann', 'Bmutnest', 'Bpo', 'Bpo3', 'Bdc', 'Bempty', 'AFP', 'odict', 'dcinst'],
      p_alias=0.75,
      fns=['things:f2', 'things:h1', 'things:Base', 'things:Other', 'things:LeafCls', 'things:kwdef', 'things:kwf'],
      root_kinds=['B'], uid=draw(st.booleans())))
  # occasionally a node over the positional-only-defaults callable
  if draw(st.floats(0, 1)) < 0.25:
    i = len(recipe['nodes']) - 1
    root = recipe['nodes'][i]
    po = {'k': 'B', 'bt': 'Config', 'fn': {'kind': 'sym', 'name': 'things:po2'},
          'pos': [{'leaf': draw(st.sampled_from(['d_p0', 'q']))}] if draw(st.booleans()) else [],
          'kw': {}, 'edits': []}
    recipe['nodes'].insert(i, po)
    recipe['nodes'][i + 1] = root
    root['kw'][_free_param(root)] = i
    recipe['root'] = i + 1
  if draw(st.floats(0, 1)) < 0.3:
    # nested constant tuple, referenced from two places (its sharing must be ignored by ==)
    i = len(recipe['nodes']) - 1
    root = recipe['nodes'].pop()
    lt = {'k': 'tuple', 'items': [{'leaf': 0}, {'leaf': draw(st.integers(0, 3))}]}
    nt = {'k': 'tuple', 'items': [i, {'leaf': 1}, i] if draw(st.booleans()) else [i, i]}
    recipe['nodes'] += [lt, nt, root]
    names = _OTHER_PARAMS.get(root['fn']['name'], ['y', 'child'])
    for nm in names[-2:]:
      root['kw'][nm] = i + 1
    recipe['root'] = i + 2
  force_r1 = None
  if draw(st.sampled_from(range(6))) == 0:
    # a named tuple of plain literals under the root (its only difference from a plain tuple is its type)
    i = len(recipe['nodes']) - 1
    root = recipe['nodes'].pop()
    recipe['nodes'] += [{'k': 'nt', 'type': draw(st.sampled_from(['Pair', 'PairSub'])),
                         'items': [{'leaf': draw(leaves.leaf('plain'))}, {'leaf': draw(leaves.leaf('plain'))}]}, root]
    root['kw'][_free_param(root)] = i
    recipe['root'] = i + 1
    if draw(st.booleans()):
      force_r1 = 'nt_to_tuple'
  weighted = PRESERVING + BREAKING + ['alias_redirect', 'alias_redirect', 'alias_redirect', 'merge', 'alias_retarget', 'alias_retarget', 'nt_to_tuple', 'nt_to_tuple',
                                      'dict_reorder', 'explicit_default', 'intern_redirect']
  r1 = [force_r1 or draw(st.sampled_from(weighted)), draw(st.integers(0, 50))]
  r2 = [draw(st.sampled_from(weighted + PRESERVING)), draw(st.integers(0, 50))]
  return {'recipe': recipe, 'r1': r1, 'r2': r2}


def strategy(tier):
  return strategy_(tier)


# ---------------------------------------------------------------------------
# recipe rewrites: return (new_recipe, post_op, effective_kind)


def _clone(recipe):
  return json.loads(json.dumps(recipe))


def _refs_of(nd):
  """Effective references of a node: (key, j, ref).  Edits: only the last setattr of a
  parameter that is not followed by a delattr is effective; it shadows kw."""
  out = []
  # a positional argument removed again by a `delitem` edit is not part of the configuration
  dropped = {e[1] for e in nd.get('edits', []) if e[0] == 'delitem' and isinstance(e[1], int)}
  for key in ('items', 'pos'):
    for j, r in enumerate(nd.get(key, [])):
      if key == 'pos' and j in dropped:
        continue
      out.append((key, j, r))
  final = {}
  for idx, e in enumerate(nd.get('edits', [])):
    if e[0] == 'setattr':
      final[e[1]] = idx
    elif e[0] == 'delattr':
      final[e[1]] = None
  for name, r in nd.get('kw', {}).items():
    if name not in final:
      out.append(('kw', name, r))
  for name, idx in final.items():
    if idx is not None:
      out.append(('edits', idx, nd['edits'][idx][2]))
  return out


def _set_ref(nd, key, j, r):
  if key == 'edits':
    nd['edits'][j][2] = r
  else:
    nd[key][j] = r


def _reachable(recipe):
  seen, stack = set(), [recipe['root']]
  while stack:
    i = stack.pop()
    if i in seen:
      continue
    seen.add(i)
    nd = recipe['nodes'][i]
    if nd['k'] == 'copyof':
      nd = recipe['nodes'][nd['of']]
      # children of the original are children of the copy as well
    for _, _, r in _refs_of(nd):
      if isinstance(r, int):
        stack.append(r)
  return seen


def _base(recipe, i):
  nd = recipe['nodes'][i]
  while nd['k'] == 'copyof':
    nd = recipe['nodes'][nd['of']]
  return nd


def rewrite(recipe, kind, sel):
  """Applies rewrite `kind`; returns (recipe', post_op or None, kind actually applied)."""
  if kind in ('deepcopy', 'pickle'):
    return recipe, kind, kind
  if kind == 'rebuild':
    return recipe, None, 'rebuild'
  r = _clone(recipe)
  reach = sorted(_reachable(r))
  nodes = r['nodes']
  if kind == 'explicit_default':
    cands = []
    for i in reach:
      nd = nodes[i]
      if nd['k'] == 'B' and nd['fn']['name'] in _DEFAULTS:
        for p, d in _DEFAULTS[nd['fn']['name']].items():
          if p not in nd['kw']:
            cands.append((i, p, d))
      elif nd['k'] == 'B' and nd['fn']['name'] == 'things:po2':
        if len(nd['pos']) == 0:
          cands.append((i, '#pos', 'd_p0'))
        elif len(nd['pos']) == 1:
          cands.append((i, '#pos', 'd_p1'))
    if not cands:
      return recipe, None, 'rebuild'
    i, p, d = cands[sel % len(cands)]
    if p == '#pos':
      nodes[i]['pos'].append({'leaf': d})
    else:
      nodes[i]['kw'][p] = {'leaf': leaves.enc(d)}
    return r, None, kind
  if kind == 'dict_reorder':
    cands = [i for i in reach if nodes[i]['k'] == 'dict' and len(nodes[i]['keys']) >= 2]
    if not cands:
      return recipe, None, 'rebuild'
    nd = nodes[cands[sel % len(cands)]]
    nd['keys'].reverse()
    nd['items'].reverse()
    return r, None, kind
  if kind == 'history':
    cands = [i for i in reach if nodes[i]['k'] == 'B' and nodes[i]['fn']['name'] != 'things:po2']
    if not cands:
      return recipe, None, 'rebuild'
    nd = nodes[cands[sel % len(cands)]]
    p = _OTHER_PARAMS.get(nd['fn']['name'], ['y'])[0]
    final = nd['kw'].get(p)
    for e in nd.get('edits', []):
      if e[0] == 'setattr' and e[1] == p:
        final = e[2]
      elif e[0] == 'delattr' and e[1] == p:
        final = None
    edits = [['setattr', p, {'leaf': 'temp'}], ['delattr', p]]
    if final is not None:
      edits.append(['setattr', p, final])
    nd['edits'] = list(nd.get('edits', [])) + edits
    return r, None, kind
  if kind == 'leaf_change':
    cands = []
    for i in reach:
      for key, j, ref in _refs_of(nodes[i]):
        if isinstance(ref, dict):
          cands.append((i, key, j))
    if not cands:
      return recipe, None, 'rebuild'
    i, key, j = cands[sel % len(cands)]
    cur = nodes[i]['edits'][j][2] if key == 'edits' else nodes[i][key][j]
    _set_ref(nodes[i], key, j, {'leaf': 'CHANGED-AGAIN' if cur == {'leaf': 'CHANGED-LEAF'} else 'CHANGED-LEAF'})
    return r, None, kind
  if kind == 'fn_swap':
    cands = [i for i in reach if nodes[i]['k'] == 'B' and _SWAP.get(nodes[i]['fn']['name'])
             and not (nodes[i]['fn']['name'] == 'things:LeafCls' and 'extra' in nodes[i]['kw'])]
    if not cands:
      return recipe, None, 'rebuild'
    nd = nodes[cands[sel % len(cands)]]
    nd['fn'] = {'kind': 'sym', 'name': _SWAP[nd['fn']['name']]}
    return r, None, kind
  if kind == 'nt_to_tuple':
    # a named tuple becomes a plain tuple with the same items (the built value has another type)
    cands = [i for i in reach if nodes[i]['k'] == 'nt']
    if not cands:
      return recipe, None, 'rebuild'
    nd = nodes[cands[sel % len(cands)]]
    nd['k'] = 'tuple'
    nd.pop('type', None)
    return r, None, kind
  if kind == 'bt_swap':
    cands = [i for i in reach if nodes[i]['k'] == 'B']
    if not cands:
      return recipe, None, 'rebuild'
    nd = nodes[cands[sel % len(cands)]]
    nd['bt'] = 'Partial' if nd['bt'] == 'Config' else 'Config'
    return r, None, kind
  if kind in ('alias_redirect', 'intern_redirect'):
    # a node referenced at >= 2 places: redirect one reference to an equal copy.
    # alias_redirect: identity-bearing targets (breaks equality);
    # intern_redirect: internable tuples of literals (== must ignore their sharing).
    uses = {}
    for i in reach:
      for key, j, ref in _refs_of(nodes[i]):
        if not isinstance(ref, int):
          continue
        if kind == 'alias_redirect' and _base(r, ref)['k'] in ('B', 'list', 'dict', 'set'):
          uses.setdefault(ref, []).append((i, key, j))
        if kind == 'intern_redirect' and nodes[ref]['k'] == 'tuple' and dags._internable_node(nodes, ref):  # pylint: disable=protected-access
          uses.setdefault(ref, []).append((i, key, j))
    cands = sorted(t for t, u in uses.items() if len(u) >= 2)
    if not cands:
      return recipe, None, 'rebuild'
    t = cands[sel % len(cands)]
    i, key, j = uses[t][(sel // 7) % len(uses[t])]
    # insert a copy right after t and shift indices
    r2 = _insert_copy(r, t)
    newidx = t + 1
    i2 = i + 1 if i > t else i
    _set_ref(r2['nodes'][i2], key, j, newidx)
    return r2, None, kind
  if kind == 'alias_retarget':
    # redirect one reference from node t to a *different existing* node that is an equal copy
    def base_idx(i):
      while nodes[i]['k'] == 'copyof':
        i = nodes[i]['of']
      return i
    groups = {}
    for i in reach:
      if _base(r, i)['k'] in ('B', 'list', 'dict', 'set'):
        groups.setdefault(base_idx(i), []).append(i)
    cands = []
    for i in reach:
      for key, j, ref in _refs_of(nodes[i]):
        if isinstance(ref, int) and _base(r, ref)['k'] in ('B', 'list', 'dict', 'set'):
          others = [t2 for t2 in groups.get(base_idx(ref), []) if t2 != ref and t2 < i]
          for t2 in others:
            cands.append((i, key, j, t2))
    if not cands:
      return recipe, None, 'rebuild'
    i, key, j, t2 = cands[sel % len(cands)]
    _set_ref(nodes[i], key, j, t2)
    return r, None, kind
  if kind == 'merge':
    cands = [i for i in reach if nodes[i]['k'] == 'copyof' and nodes[i]['of'] in reach]
    if not cands:
      return recipe, None, 'rebuild'
    c = cands[sel % len(cands)]
    orig = nodes[c]['of']
    for i in range(len(nodes)):
      for key, j, ref in _refs_of(nodes[i]):
        if isinstance(ref, int) and ref == c:
          _set_ref(nodes[i], key, j, orig)
    if r['root'] == c:
      return recipe, None, 'rebuild'
    return r, None, kind
  raise ValueError(kind)


def _insert_copy(recipe, t):
  r = _clone(recipe)
  nodes = r['nodes']

  def shift(x):
    return x + 1 if isinstance(x, int) and x > t else x

  for nd in nodes:
    if nd['k'] == 'copyof':
      nd['of'] = shift(nd['of'])
    for key in ('items', 'pos'):
      if key in nd:
        nd[key] = [shift(x) for x in nd[key]]
    if 'kw' in nd:
      nd['kw'] = {k: shift(v) for k, v in nd['kw'].items()}
    for e in nd.get('edits', []):
      if e[0] == 'setattr':
        e[2] = shift(e[2])
  nodes.insert(t + 1, {'k': 'copyof', 'of': t})
  r['root'] = shift(r['root'])
  return r


def _materialize(recipe, post):
  root, _ = dags.build(recipe)
  if post == 'deepcopy':
    root = copy.deepcopy(root)
  elif post == 'pickle':
    root = pickle.loads(pickle.dumps(root))
  return root


def _eq(a, b):
  try:
    return ('value', a == b)
  except Exception as e:  # pylint: disable=broad-except
    return ('raises', e)


def _ne(a, b):
  try:
    return ('value', a != b)
  except Exception as e:  # pylint: disable=broad-except
    return ('raises', e)


def _has_mixed_dict(root):
  for _, v in C.walk(root):
    if isinstance(v, dict) and len({type(k) for k in v}) > 1:
      return True
  return False


def first_visit_paths(root):
  """Paths at which a memoized depth-first walk (signature / insertion order) first meets
  each identity-bearing object.  Used only to *classify* alias findings."""
  seen, out = set(), set()

  def rec(v, path):
    if not C.is_internable(v):
      if id(v) in seen:
        return
      seen.add(id(v))
      out.add(path)
    for pe, c in C.children(v):
      rec(c, path + (pe,))

  rec(root, ())
  return out


def same_first_visits_everywhere(a, b):
  """== recurses into every nested Buildable with its own DAG comparison, so the
  classification looks at every corresponding pair of nested Buildables."""
  pa = {p: v for p, v in C.walk(a) if isinstance(v, fdl.Buildable)}
  pb = {p: v for p, v in C.walk(b) if isinstance(v, fdl.Buildable)}
  if set(map(_path_key, pa)) != set(map(_path_key, pb)):
    return False
  kb = {_path_key(p): v for p, v in pb.items()}
  for p, v in pa.items():
    if _fv_keys(v) != _fv_keys(kb[_path_key(p)]):
      return False
  return True


def _path_key(p):
  return repr(p)


def _retyped_nt_children_visited_before(a, b):
  """Input feature of the listed finding: every named tuple of `a` that is a plain tuple in `b`
  holds only identity-bearing objects that are first reached outside it (so the traversal that
  == compares reports no path below it)."""
  pa = dict((repr(p), (p, v)) for p, v in C.walk(a))
  pb = dict((repr(p), v) for p, v in C.walk(b))
  idn = C.identity_nodes(a)
  found = False
  for key, (p, v) in pa.items():
    w = pb.get(key)
    # in b the items are reached through index path elements, so look b's node up by position
    if C.is_namedtuple(v) and type(w) is tuple:
      found_here = True
      for _, child in C.children(v):
        if C.is_leaf(child) or C.is_internable(child) or id(child) not in idn:
          return False
        first = idn[id(child)][1][0]
        if tuple(first[:len(p)]) == tuple(p) and len(first) > len(p):
          return False
      found = found or found_here
  return found


def _fv_keys(v):
  return {repr(p) for p in first_visit_paths(v)}


def _canon_build(root):
  vuni.reset_log()
  return C.Canon(callable_probe=True).term(fdl.build(root))


def check_sentinel_default(case, out):
  out.cls('sentinel_default')
  out.nontrivial = True
  bt = getattr(fdl, case['bt'])

  def mk(explicit):
    inner = bt(things.pooled, x=leaves.dec(case['x']))
    if explicit:
      inner.pool = things.DEFAULT_POOL
    w = case['wrap']
    if w == 'none':
      return inner
    if w == 'list':
      return fdl.Config(things.h1, a=[inner, 1])
    if w == 'dict':
      return fdl.Config(things.h1, a={'k': inner})
    return fdl.Config(things.f2, x='outer', child=inner)

  op = case['op']
  a, b = mk(False), mk(True)
  src = mk(False)
  if op == 'deepcopy':
    c = copy.deepcopy(src)
  elif op == 'pickle':
    c = pickle.loads(pickle.dumps(src))
  elif op == 'copy':
    c = copy.copy(src)
  elif op == 'copy_with':
    c = fdl.copy_with(src)
  elif op == 'deepcopy_with':
    c = fdl.deepcopy_with(src)
  else:
    from fiddle import daglish
    c = daglish.MemoizedTraversal.run(lambda v, state: state.map_children(v), src)
  feat = 'sentinel-default:' + op
  res = {}
  for name, (p, q) in {'ab': (a, b), 'ba': (b, a), 'ac': (a, c), 'ca': (c, a), 'bc': (b, c), 'cb': (c, b)}.items():
    e = _eq(p, q)
    if e[0] == 'raises':
      out.add('eq-raises', exc_kind(e[1]), fiddle_frame(e[1]), feat, f'{name}: {e[1]!r}')
      return out
    res[name] = bool(e[1])
  if not res['ab'] or not res['ba']:
    out.add('preserving-rewrite-unequal', 'mismatch', '', 'sentinel-default:explicit_default', f'a={a!r}\nb={b!r}')
  if not res['ac'] or not res['ca']:
    out.add('preserving-rewrite-unequal', 'mismatch', '', feat, f'a={a!r}\nc={c!r}')
  if res['ab'] and res['ac'] and not (res['bc'] and res['cb']):
    out.add('not-transitive', 'mismatch', '', feat, f'explicit == unset == {op}(unset), but explicit != {op}(unset)')
  return out


def check_mutable_default_sites(case, out):
  out.cls('mutable_default_sites')
  out.nontrivial = True
  bt = getattr(fdl, case['bt'])
  n = case['sites']

  def mk(how):
    sites = [bt(things.mutdef1, other=f's{i}') for i in range(n)]
    if how == 'shared':
      lst = ['single-default']
      for s in sites:
        s.a = lst
    elif how == 'separate':
      for s in sites:
        s.a = ['single-default']
    if case['wrap'] == 'list':
      return fdl.Config(things.h1, a='root', b=sites)
    return fdl.Config(things.h1, a='root', **dict(zip(['b', 'c', 'd'], sites)))

  unset, shared, separate = mk('unset'), mk('shared'), mk('separate')
  feat = f'mutable-default-sites:{case["wrap"]}'
  res = {}
  for name, (p, q) in {'us': (unset, shared), 'su': (shared, unset), 'up': (unset, separate), 'pu': (separate, unset),
                       'sp': (shared, separate), 'ps': (separate, shared)}.items():
    e = _eq(p, q)
    if e[0] == 'raises':
      out.add('eq-raises', exc_kind(e[1]), fiddle_frame(e[1]), feat, f'{name}: {e[1]!r}')
      return out
    res[name] = bool(e[1])
  if not res['us'] or not res['su']:
    out.add('preserving-rewrite-unequal', 'mismatch', '', feat + ':explicit_default',
            'default left unset at every site vs one equal explicit list shared by the sites (same built sharing)')
  if res['up'] or res['pu'] or res['sp'] or res['ps']:
    out.add('breaking-rewrite-equal', 'mismatch', '', feat + ':separate',
            f'configs whose builds differ in sharing compare equal: {res}')
  return out


def check(case):
  out = Outcome()
  if case.get('sentinel_default'):
    return check_sentinel_default(case, out)
  if case.get('mutable_default_sites'):
    return check_mutable_default_sites(case, out)
  x_rec = case['recipe']
  y_rec, post1, k1 = rewrite(x_rec, case['r1'][0], case['r1'][1])
  z_rec, post2, k2 = rewrite(y_rec, case['r2'][0], case['r2'][1])
  try:
    x = _materialize(x_rec, None)
    y = _materialize(y_rec, post1)
    # z = r2(y): object-level post ops compose
    z = _materialize(z_rec, post2 if post2 else post1)
  except RecursionError:
    out.skipped = 'recursion'
    return out
  mixed = _has_mixed_dict(x)
  out.cls('r1_' + k1, 'r2_' + k2)
  if mixed:
    out.cls('mixed_key_dict')
  if k1 in ('alias_redirect', 'merge', 'alias_retarget') or k2 in ('alias_redirect', 'merge', 'alias_retarget'):
    out.cls('alias_only_pair')
  if 'explicit_default' in (k1, k2):
    out.cls('explicit_default')
  out.nontrivial = bool(mixed or 'alias_only_pair' in out.classes or 'explicit_default' in out.classes)
  posonly = any(isinstance(v, fdl.Buildable) and v.__fn_or_cls__ is things.po2 for _, v in C.walk(x))
  if posonly:
    out.cls('posonly_defaults')
  feat = ('mixed-key-dict' if mixed else '') + (':posonly-default' if posonly else '')

  pairs = {'xx': (x, x), 'xy': (x, y), 'yx': (y, x), 'yz': (y, z), 'zy': (z, y), 'xz': (x, z),
           'zx': (z, x)}
  res = {}
  for name, (a, b) in pairs.items():
    e = _eq(a, b)
    n = _ne(a, b)
    if e[0] == 'raises':
      out.add('eq-raises', exc_kind(e[1]), fiddle_frame(e[1]), feat, f'{name}: {e[1]!r}')
      return out
    if n[0] == 'raises':
      out.add('ne-raises', exc_kind(n[1]), fiddle_frame(n[1]), feat, f'{name}: {n[1]!r}')
      return out
    if bool(e[1]) == bool(n[1]):
      out.add('ne-is-not-negation-of-eq', 'mismatch', '', feat, name)
      return out
    res[name] = bool(e[1])
  if not res['xx']:
    out.add('not-reflexive', 'mismatch', '', feat, repr(x)[:300])
  for a, b in (('xy', 'yx'), ('yz', 'zy'), ('xz', 'zx')):
    if res[a] != res[b]:
      out.add('not-symmetric', 'mismatch', '', feat, f'{a}={res[a]} {b}={res[b]}')
  if res['xy'] and res['yz'] and not res['xz']:
    out.add('not-transitive', 'mismatch', '', feat, f'{k1},{k2}')
  p1, p2 = k1 in PRESERVING, k2 in PRESERVING

  def kfeat(k, a=None, b=None):
    if a is None:
      return k
    if k == 'nt_to_tuple':
      return k + (':children-visited-before' if _retyped_nt_children_visited_before(a, b) else ':own-paths')
    same = same_first_visits_everywhere(a, b)
    return k + (':same-first-visit-paths' if same else ':distinct-first-visit-paths')

  if p1 and not res['xy']:
    out.add('preserving-rewrite-unequal', 'mismatch', '', kfeat(k1, x, y), f'x={x!r}\ny={y!r}')
  if not p1 and res['xy']:
    out.add('breaking-rewrite-equal', 'mismatch', '', kfeat(k1, x, y), f'x={x!r}\ny={y!r}')
  if p2 and not res['yz']:
    out.add('preserving-rewrite-unequal', 'mismatch', '', kfeat(k2, y, z), f'y={y!r}\nz={z!r}')
  if not p2 and res['yz']:
    out.add('breaking-rewrite-equal', 'mismatch', '', kfeat(k2, y, z), f'y={y!r}\nz={z!r}')
  if out.findings:
    return out
  # congruence with build
  for name in ('xy', 'yz', 'xz'):
    if res[name]:
      a, b = pairs[name]
      try:
        ca, cb = _canon_build(a), _canon_build(b)
      except Exception as e:  # pylint: disable=broad-except
        out.skipped = 'build-raised:' + type(e).__name__
        return out
      if ca != cb:
        vuni.reset_log()
        ta = C.Canon(callable_probe=True, sharing=False).term(fdl.build(a))
        tb = C.Canon(callable_probe=True, sharing=False).term(fdl.build(b))
        what = 'sharing-only' if ta == tb else 'values'
        out.add('equal-configs-build-different-graphs', 'mismatch', '', kfeat(what, a, b),
                f'{name} ({k1},{k2}): a={a!r}\nb={b!r}')
        return out
  return out
