"""C20 — meaning-preserving transformations preserve what is built."""

import copy
import dataclasses
import inspect

import fiddle as fdl
from fiddle._src import materialize
from fiddle._src import tagging
from fiddle._src.experimental import auto_config as ac
from fiddle._src.experimental import dataclasses as fdl_dataclasses
from fiddle._src.experimental import serialization
from fiddle._src.experimental import transform
from fiddle._src.experimental import visualize
from hypothesis import strategies as st

from harness import canon as C
from harness.gen import dags, leaves
from harness.runner import Outcome, exc_kind, fiddle_frame
import harness.vuni as vuni
from harness.vuni import acfuns, things

RULE = (
    'Generated: (transformation, configuration) pairs. Configurations are DAG recipes with '
    'positional-only parameters with defaults, a callable whose defaults are one shared mutable '
    'list and a tuple, arguments explicitly equal to (and aliasing) those defaults, dataclasses '
    'with default factories, TaggedValues (with and without value) in containers, unconfigured '
    'and configured Partials in containers, tuples of literals shared between arguments, Configs '
    'of auto_config functions (for inline), and nested dataclass instances in containers (for '
    'convert_dataclasses_to_configs). Oracle: the transformation does not raise; canonical form '
    '(with sharing; partials behaviourally) of build(t(c)) equals that of build(c); '
    'materialize_defaults / with_defaults_trimmed keep t(c) == c; materialize_defaults is '
    'idempotent and afterwards every parameter with a default value is explicitly set; '
    'build(convert_dataclasses_to_configs(x)) equals x with equal types; if dump_json(c) '
    'succeeds so does dump_json(t(c)). Non-trivial: input has a default that is positional-only, '
    'mutable or produced by a factory, and sharing.'
)
RULE += (' ' + 'Also generated: a callable with a required positional-only parameter followed by defaulted positional-only ones (po3).')
RULE += (' ' + 'Rounds 2-5: unset TaggedValues in containers (the transformation must succeed, the result fails to build alike); po3; prefix-named sibling parameter; several nodes leaving one mutable default unset; nested mutable default.')
ASSUMPTIONS = [
    'a dataclass default_factory is not a "default value": it need not (and cannot) be materialized',
    'inputs whose own build raises are skipped (nothing to preserve), except when a TaggedValue without a value makes it fail: there the transformation must succeed and the result must fail to build with the same exception class',
]
BUDGET = {'quick': 16 * 450, 'thorough': 16 * 10000}
FLOORS = {'special_default': 0.3, 'sharing': 0.25}

TRANSFORMS = ['materialize_defaults', 'materialize_defaults', 'with_defaults_trimmed', 'with_defaults_trimmed_deep',
              'unintern_tuples_of_literals', 'replace_unconfigured_partials', 'clear_argument_history',
              'materialize_tags', 'materialize_tags_clear', 'inline', 'convert_dataclasses']


@st.composite
def strategy_(draw, tier):
  t = draw(st.sampled_from(TRANSFORMS))
  if t == 'convert_dataclasses':
    return {'t': t, 'dc': draw(_dc_value(3))}
  recipe = draw(dags.dag(
      max_nodes=9, min_nodes=2, tags=True, bts=('Config', 'Config', 'Partial'),
      kinds=['B', 'B', 'list', 'tuple', 'dict', 'Bmut', 'Bmut1', 'Bmut1', 'Bmutnest', 'Bpo', 'Bpo3', 'Bdc', 'TV', 'Bempty', 'ltuple', 'ntuple',
             # further node kinds of the shared generator that this check's oracle handles (each once)
             'ddict', 'set', 'fset', 'nt', 'dcinst', 'Bdictcfg'],
      fns=['things:f2', 'things:h1', 'things:Base'], root_kinds=['B', 'Bmut', 'Bmut1', 'Bpo', 'Bpo3', 'Bdc', 'list'],
      p_alias=0.8, allow_copyof=False))
  if draw(st.floats(0, 1)) < (0.6 if t.startswith('materialize_tags') else 0.15):
    # a TaggedValue inside a container whose payload is also referenced from elsewhere
    i = len(recipe['nodes']) - 1
    root = recipe['nodes'].pop()
    payload = draw(st.integers(0, i - 1)) if i > 0 else {'leaf': 3}
    tv = {'k': 'TV', 'tags': [draw(st.sampled_from(['TagA', 'TagB', 'TagX']))], 'value': payload}
    if draw(st.floats(0, 1)) < 0.3:
      tv['value'] = None       # a TaggedValue that was never given a value
    lst = {'k': 'list', 'items': [i] + ([payload] if isinstance(payload, int) else []) + ([i] if draw(st.booleans()) else [])}
    recipe['nodes'] += [tv, lst, root]
    if root['k'] == 'list':
      root['items'].append(i + 1)
    elif root['k'] == 'B':
      name = root['fn']['name']
      pname = {'things:h1': 'e', 'things:mutdef': 'c', 'things:mutdef1': 'other', 'things:mutnest': 'other', 'things:po2': 'a', 'things:po3': 'a', 'things:DCPlain': 'v'}.get(name, 'child')
      root['kw'][pname] = i + 1
    recipe['root'] = i + 2
  if t == 'materialize_defaults' and draw(st.booleans()):
    # two nodes that leave the same mutable default unset (they share the default object)
    nodes = recipe['nodes']
    fn = draw(st.sampled_from(['things:mutdef1', 'things:mutnest']))
    mk = lambda uid: {'k': 'B', 'bt': 'Config', 'fn': {'kind': 'sym', 'name': fn}, 'pos': [],
                      'kw': {'c': {'leaf': uid}}, 'edits': []}
    nodes.append(mk('uidM1'))
    nodes.append(mk('uidM2'))
    n = len(nodes)
    nodes.append({'k': 'B', 'bt': 'Config', 'fn': {'kind': 'sym', 'name': 'things:h1'}, 'pos': [],
                  'kw': {'a': {'leaf': 'uidT'}, 'b': n - 2, 'c': n - 1, 'd': recipe['root']}, 'edits': []})
    recipe['root'] = n
  case = {'t': t, 'recipe': recipe}
  if t == 'inline':
    case['ac'] = draw(st.sampled_from(['make_pair', 'make_nested', 'make_shared']))
    case['ac_arg'] = draw(st.sampled_from([None, 1, 'v']))
  return case


def _dc_value(depth):
  leaf = st.one_of(st.integers(0, 5), st.sampled_from(['a', None]))
  if depth == 0:
    return leaf.map(lambda v: {'leaf': v})
  sub = _dc_value(depth - 1)
  return st.one_of(
      leaf.map(lambda v: {'leaf': v}),
      st.fixed_dictionaries({'dc': st.just('DCNest'), 'inner': sub, 'items': sub, 'name': st.sampled_from(['n', 'm'])}),
      st.fixed_dictionaries({'dc': st.just('DCPlain'), 'u': sub, 'v': sub}),
      st.lists(sub, max_size=2).map(lambda l: {'list': l}),
      st.lists(sub, min_size=1, max_size=2).map(lambda l: {'tuple': l}),
      st.lists(sub, max_size=2).map(lambda l: {'dict': l}),
  )


def strategy(tier):
  return strategy_(tier)


def build_dc(j):
  if 'leaf' in j:
    return j['leaf']
  if 'list' in j:
    return [build_dc(x) for x in j['list']]
  if 'tuple' in j:
    return tuple(build_dc(x) for x in j['tuple'])
  if 'dict' in j:
    return {f'k{i}': build_dc(x) for i, x in enumerate(j['dict'])}
  if j['dc'] == 'DCNest':
    return things.DCNest(inner=build_dc(j['inner']), items=build_dc(j['items']), name=j['name'])
  return things.DCPlain(u=build_dc(j['u']), v=build_dc(j['v']))


def strip_callable_identity(term):
  """Removes the identity of callables (a built functools.partial is an object, the bare
  function that replaces an unconfigured Partial is a symbol) and renumbers the rest."""
  mapping = {}

  def rec(t):
    if isinstance(t, tuple):
      if len(t) == 3 and t[0] == 'def' and isinstance(t[2], tuple) and t[2] and t[2][0] == 'callable':
        mapping[t[1]] = None
        return rec(t[2])
      if len(t) == 3 and t[0] == 'def':
        mapping[t[1]] = len([v for v in mapping.values() if v is not None])
        return ('def', mapping[t[1]], rec(t[2]))
      if len(t) == 2 and t[0] == 'ref' and t[1] in mapping:
        return ('callable-ref',) if mapping[t[1]] is None else ('ref', mapping[t[1]])
      return tuple(rec(e) for e in t)
    return t

  return rec(term)


def _cbuild(x, probe_symbols=False):
  vuni.reset_log()
  try:
    b = x if C.is_symbol(x) else fdl.build(x)
    term = C.Canon(callable_probe=True, probe_symbols=probe_symbols).term(b)
    return ('ok', term)
  except Exception as e:  # pylint: disable=broad-except
    return ('raises', type(e).__name__, repr(e)[:200])


def _dump_ok(x):
  try:
    serialization.dump_json(x)
    return True
  except Exception:  # pylint: disable=broad-except
    return False


def apply(t, c):
  if t == 'materialize_defaults':
    # `c` is a second, independent construction of the same recipe (a deep copy would break
    # the aliasing between explicit arguments and the callables' own default objects)
    materialize.materialize_defaults(c)
    return c
  if t == 'with_defaults_trimmed':
    return visualize.with_defaults_trimmed(c)
  if t == 'with_defaults_trimmed_deep':
    return visualize.with_defaults_trimmed(c, remove_deep_defaults=True)
  if t == 'unintern_tuples_of_literals':
    return transform.unintern_tuples_of_literals(c)
  if t == 'replace_unconfigured_partials':
    return transform.replace_unconfigured_partials_with_callables(c)
  if t == 'clear_argument_history':
    return serialization.clear_argument_history(c)
  if t == 'materialize_tags':
    return tagging.materialize_tags(c)
  if t == 'materialize_tags_clear':
    return tagging.materialize_tags(c, clear_field_tags=True)
  raise ValueError(t)


def check(case):
  out = Outcome()
  snap = list(things._MUTABLE_DEFAULT)  # pylint: disable=protected-access
  try:
    return _check(case, out)
  finally:
    things._MUTABLE_DEFAULT[:] = snap  # pylint: disable=protected-access


def _check(case, out):
  t = case['t']
  out.cls('t_' + t)
  if t == 'convert_dataclasses':
    x = build_dc(case['dc'])
    has_dc = any(dataclasses.is_dataclass(v) for v in _iter_dc(x))
    out.nontrivial = has_dc
    try:
      cfg = fdl_dataclasses.convert_dataclasses_to_configs(x)
      back = fdl.build(cfg) if has_dc else cfg
    except Exception as e:  # pylint: disable=broad-except
      out.add('convert-dataclasses-raises', exc_kind(e), fiddle_frame(e), '', repr(e)[:300])
      return out
    if C.canon(back, sharing=False) != C.canon(x, sharing=False):
      out.add('convert-dataclasses-build-differs', 'mismatch', '', '', f'{x!r} -> {back!r}'[:600])
    return out

  root, objs = dags.build(case['recipe'])
  if t == 'inline':
    fn = getattr(acfuns, case['ac'])
    args = {} if case['ac_arg'] is None else {list(inspect.signature(fn).parameters)[0]: case['ac_arg']}
    accfg = fdl.Config(fn, **args)
    root = [accfg, root, {'again': accfg}]
  special = any(isinstance(v, fdl.Buildable) and v.__fn_or_cls__ in (things.po2, things.po3, things.mutdef, things.mutdef1, things.mutnest, things.DCPlain)
                for _, v in C.walk(root))
  idn = C.identity_nodes(root)
  sharing = any(len(ps) > 1 for _, ps in idn.values())
  if special:
    out.cls('special_default')
  if sharing:
    out.cls('sharing')
  out.nontrivial = special and sharing
  ps = t == 'replace_unconfigured_partials'
  before_build = _cbuild(root, ps)
  has_unset_tv = any(type(v).__name__ == 'TaggedValueCls' and 'value' not in v.__arguments__ for _, v in C.walk(root))
  unfilled = before_build[0] != 'ok' and has_unset_tv and (
      before_build[1] == 'TaggedValueNotFilledError' or (before_build[1] == 'TypeError' and 'tagged_value_fn()' in before_build[2]))
  if before_build[0] != 'ok' and not unfilled:
    out.skipped = 'input-does-not-build:' + before_build[1]
    return out
  if unfilled:
    # quantifier: "unset tagged values in containers" -- the transformation must still yield a
    # configuration, and that configuration must fail to build for the same reason
    out.cls('unset_tagged_value')
    before_build = before_build[:2]
  dump_before = _dump_ok(root)
  feat = 'unset-tagged-value' if unfilled else _feature(root)
  try:
    if t == 'inline':
      work = copy.deepcopy(root)
      ac.inline(work[0])
      tc = work
    elif t == 'materialize_defaults':
      tc = apply(t, dags.build(case['recipe'])[0])
    else:
      tc = apply(t, root)
  except Exception as e:  # pylint: disable=broad-except
    out.add('transformation-raises', exc_kind(e), fiddle_frame(e), t + ':' + feat, f'{e!r} on {root!r}'[:700])
    return out
  after_build = _cbuild(tc, ps)
  if unfilled:
    after_build = after_build[:2]
  if after_build != before_build:
    kind = 'raises'
    if unfilled:
      kind = 'builds-although-original-does-not' if after_build[0] == 'ok' else 'raises-differently'
    elif after_build[0] == 'ok':
      vuni.reset_log()
      t1 = C.Canon(callable_probe=True, probe_symbols=ps, sharing=False).term(tc if C.is_symbol(tc) else fdl.build(tc))
      t0 = C.Canon(callable_probe=True, probe_symbols=ps, sharing=False).term(fdl.build(root))
      kind = 'sharing-only' if t0 == t1 else 'values'
      if kind == 'sharing-only':
        feat = _classify_sharing_difference(t, root, tc, ps, feat)
    out.add('built-graph-changed', kind, '', t + ':' + feat,
            f'before {str(before_build)[:500]}\nafter  {str(after_build)[:500]}\ncfg {root!r}'[:1800])
    return out
  if t in ('materialize_defaults', 'with_defaults_trimmed', 'with_defaults_trimmed_deep'):
    try:
      if not (copy.deepcopy(root) == root):
        # == is not stable under copying for this input (an explicit argument aliases a
        # default object of the callable): owned by C06, not judged here
        out.prereq_failed += 1
        eq = True
      else:
        eq = tc == root
    except Exception as e:  # pylint: disable=broad-except
      out.prereq_failed += 1   # == raising is owned by C06
      eq = True
    if not eq:
      if 'mutable-default' in _feature(root).split(',') and (
          C.canon(root, fill_defaults=True, sharing=False) == C.canon(tc, fill_defaults=True, sharing=False)):
        # same root cause as the listed build-level finding: an explicit argument equal to a mutable
        # default and the unset parameter differ only in whether the default *object* is shared
        feat = 'default-object-sharing'
      out.add('transformed-config-not-equal-to-original', 'mismatch', '', t + ':' + feat,
              f'orig {root!r}\nnew  {tc!r}'[:900])
      return out
  if t == 'materialize_defaults':
    before_again = C.canon(tc)
    materialize.materialize_defaults(tc)
    if C.canon(tc) != before_again:
      out.add('materialize-defaults-not-idempotent', 'mismatch', '', feat, '')
      return out
    for _, v in C.walk(tc):
      if isinstance(v, fdl.Buildable) and type(v).__name__ != 'TaggedValueCls':
        sig = inspect.signature(v.__fn_or_cls__)
        for idx, (name, p) in enumerate(sig.parameters.items()):
          if p.default is p.empty or C._uses_factory(v.__fn_or_cls__, name):  # pylint: disable=protected-access
            continue
          key = idx if p.kind == p.POSITIONAL_ONLY else name
          if key not in v.__arguments__:
            out.add('default-not-materialized', 'mismatch', '', feat, f'{name!r} of {v!r}'[:300])
            return out
  if dump_before and not _dump_ok(tc):
    try:
      serialization.dump_json(tc)
    except Exception as e:  # pylint: disable=broad-except
      out.add('serializable-config-became-unserializable', exc_kind(e), '', t + ':' + feat, repr(e)[:300])
  return out


_DEFAULT_OBJECTS = (things._MUTABLE_DEFAULT, things._SINGLE_DEFAULT, things._NEST_DEFAULT,  # pylint: disable=protected-access
                    things._NEST_DEFAULT['k'])  # pylint: disable=protected-access


def _noid(x, ps):
  vuni.reset_log()
  b = x if C.is_symbol(x) else fdl.build(x)
  return _wrap_noid(C.Canon(callable_probe=True, probe_symbols=ps, no_identity=_DEFAULT_OBJECTS).term(b))


def _wrap_noid(term):
  """A list that *is* a default object and an equal fresh copy referenced once look the same."""
  counts = {}

  def count(t):
    if isinstance(t, tuple):
      if len(t) == 2 and t[0] == 'ref':
        counts[t[1]] = counts.get(t[1], 0) + 1
      for e in t:
        count(e)

  count(term)

  def rec(t):
    if isinstance(t, tuple):
      if len(t) == 2 and t[0] == 'noid':
        return ('value', rec(t[1]))
      if len(t) == 3 and t[0] == 'def' and counts.get(t[1], 0) == 0 and isinstance(t[2], tuple) and t[2][:1] == ('list',):
        return ('value', rec(t[2]))
      return tuple(rec(e) for e in t)
    return t

  return _renumber(rec(term))


def _renumber(term):
  m = {}

  def rec(t):
    if isinstance(t, tuple):
      if len(t) == 3 and t[0] == 'def':
        m[t[1]] = len(m)
        return ('def', m[t[1]], rec(t[2]))
      if len(t) == 2 and t[0] == 'ref':
        return ('ref', m.get(t[1], t[1]))
      return tuple(rec(e) for e in t)
    return t

  return rec(term)


def _classify_sharing_difference(t, root, tc, ps, feat):
  """Input/effect features of the listed known findings about mutable defaults."""
  try:
    if _noid(root, ps) == _noid(tc, ps):
      # the two graphs differ only in whether a list is the callable's own default object
      # (shared by every call that leaves the parameter unset) or a fresh equal copy
      return 'default-object-sharing'
  except Exception:  # pylint: disable=broad-except
    pass
  if t == 'replace_unconfigured_partials' and _partial_with_default_equal_arg(root):
    return 'aliased-arg-equal-to-default'
  if _half_default(root):
    return 'shared-mutable-default'
  return feat


def _partial_with_default_equal_arg(root):
  for _, v in C.walk(root):
    if type(v) is fdl.Partial and v.__fn_or_cls__ in (things.mutdef, things.mutdef1, things.mutnest):
      for k in ('a', 'b'):
        val = v.__arguments__.get(k)
        if isinstance(val, (list, dict)) and any(
            type(val) is type(d) and val == d
            for d in (things._MUTABLE_DEFAULT, things._SINGLE_DEFAULT, things._NEST_DEFAULT)):  # pylint: disable=protected-access
          return True
  return False


def _half_default(root):
  """Input feature of the listed known finding: a callable whose parameters a and b default to
  the *same* mutable object, with a or b explicitly set to a value equal to that default
  (explicit-vs-unset is then observable through sharing, because fdl.build copies explicit
  containers but passes default objects through)."""
  for _, v in C.walk(root):
    if isinstance(v, fdl.Buildable) and v.__fn_or_cls__ is things.mutdef:
      for k in ('a', 'b'):
        val = v.__arguments__.get(k)
        if isinstance(val, list) and val == things._MUTABLE_DEFAULT:  # pylint: disable=protected-access
          return True
  return False


def _iter_dc(x):
  yield x
  if dataclasses.is_dataclass(x) and not isinstance(x, type):
    for f in dataclasses.fields(x):
      yield from _iter_dc(getattr(x, f.name))
  elif isinstance(x, (list, tuple)):
    for e in x:
      yield from _iter_dc(e)
  elif isinstance(x, dict):
    for e in x.values():
      yield from _iter_dc(e)


def _feature(root):
  fs = set()
  for _, v in C.walk(root):
    if isinstance(v, fdl.Buildable):
      if v.__fn_or_cls__ in (things.po2, things.po3):
        fs.add('posonly-default')
      if v.__fn_or_cls__ is things.DCPlain:
        fs.add('default-factory')
      if v.__fn_or_cls__ in (things.mutdef, things.mutdef1, things.mutnest):
        fs.add('mutable-default')
  return ','.join(sorted(fs)) or 'plain'
