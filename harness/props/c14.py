"""C14 — tags select exactly the tagged arguments and survive every transformation."""

import collections
import copy
import inspect
import pickle

import fiddle as fdl
from fiddle._src import diffing
from fiddle._src import selectors
from fiddle._src import tagging
from fiddle.experimental import serialization
from hypothesis import strategies as st

from harness import canon as C
from harness.gen import dags, leaves, recipes
from harness.runner import Outcome, exc_kind, fiddle_frame
import harness.vuni as vuni
from harness.vuni import tags as vtags
from harness.vuni import things

RULE = (
    'Generated: DAG recipes with tags from the hierarchy TagA<-TagB<-TagC and TagX on keyword, '
    'positional(-only), *args and **kwargs arguments (with and without values), annotation tags '
    '(also on a positional-only parameter), shared tagged nodes, TaggedValues inside containers '
    '(with and without value); a tag T; a replacement value v (leaf, list or untagged Config); '
    'and a sequence of add_tag/remove_tag/set_tags/clear_tags/get_tags operations by name and '
    'by index (valid and invalid). Oracle: independent graph walk gives the frame condition for '
    'set_tagged and select(tag=T).replace (exactly the arguments whose tag set contains a '
    'subclass of T hold v afterwards, every other argument and every tag set is unchanged); '
    'list_tags equals the union over reachable Buildables (superclasses via the MRO); tag sets '
    'after the operation sequence equal a dict-of-sets model and invalid operations raise and '
    'change nothing; tags are canonically equal after copy, deepcopy, pickle, cast, JSON round '
    'trip and apply_diff(build_diff); a TaggedValue builds to its value or raises '
    'TaggedValueNotFilledError. Non-trivial: >=2 tagged arguments of which one matches only '
    'through a subclass and one is on a shared node, or a tag on a positional argument.'
)
RULE += (' ' + 'Round 6: a diff pair with a callable change together with tags added and removed on parameters both callables have.')
RULE += (' ' + 'Rounds 4-5: tags right after construction compared with an expectation computed from the recipe; two tag classes with the same __name__; a diff pair with a callable change and removal of a tag on a parameter only the old callable has.')
ASSUMPTIONS = [
    'v contains no T-tagged argument (otherwise the post-condition is ambiguous)',
    'diff survival is judged only where diffing is known to work (no positional arguments, C10 owns those)',
]
BUDGET = {'quick': 16 * 400, 'thorough': 16 * 10000}
FLOORS = {'subclass_match': 0.15, 'positional_tag': 0.08, 'tagged_shared': 0.1, 'tv_in_container': 0.05}
_TAGS = ['TagA', 'TagB', 'TagC', 'TagX']


@st.composite
def strategy_(draw, tier):
  recipe = draw(dags.dag(
      max_nodes=9, min_nodes=2, tags=True, bts=('Config', 'Config', 'Partial'),
      kinds=['B', 'B', 'list', 'list', 'dict', 'tuple', 'TV', 'TV', 'TV', 'Bpos', 'Bann', 'Bann',
             # further node kinds of the shared generator that this check's oracle handles (each once)
             'ddict', 'mdict', 'kdict', 'set', 'fset', 'ltuple', 'ntuple', 'nt', 'Bmut', 'Bmut1', 'Bmutnest', 'Bpo', 'Bpo3', 'Bdc', 'Bempty', 'AFP', 'odict', 'dcinst', 'Bdictcfg'],
      fns=['things:f2', 'things:h1', 'things:Base', 'things:annotated_fn'],
      root_kinds=['B', 'Bpos', 'Bann'], p_alias=0.75, allow_copyof=False))
  if draw(st.floats(0, 1)) < 0.3:
    i = len(recipe['nodes']) - 1
    root = recipe['nodes'].pop()
    val = draw(st.sampled_from([None, {'leaf': 7}] + ([0] if i > 0 else [])))
    tv = {'k': 'TV', 'tags': [draw(st.sampled_from(_TAGS))], 'value': val}
    lst = {'k': 'list', 'items': [i, {'leaf': 1}] + ([0] if i > 0 else [])}
    recipe['nodes'] += [tv, lst, root]
    name = root['fn']['name']
    pname = 'z0' if name in ('things:g3', 'things:annotated_po') else ('e' if name == 'things:h1' else 'child')
    root['kw'][pname] = i + 1
    recipe['root'] = i + 2
  if draw(st.sampled_from(range(4))) == 0:
    # two unrelated tag classes with the same __name__
    for nd in recipe['nodes']:
      if nd['k'] == 'B' and nd.get('tags'):
        nd['tags'] = [[k, draw(st.sampled_from(['SameA', 'SameB', t]))] for k, t in nd['tags']]
  ops = []
  for _ in range(draw(st.integers(0, 8))):
    ops.append({'op': draw(st.sampled_from(['add', 'add', 'remove', 'set', 'clear', 'get'])),
                'arg': draw(st.sampled_from(['x', 'y', 'child', 'a', 'b', 'k', 'p0', 'args', 'z0', 'nope',
                                             0, 1, 2, 5, -1])),
                'tags': draw(st.lists(st.sampled_from(_TAGS), max_size=2, unique=True)),
                'tag': draw(st.sampled_from(_TAGS))})
  return {'recipe': recipe, 'T': draw(st.sampled_from(_TAGS)),
          'v': draw(st.sampled_from(['leaf', 'list', 'config'])), 'vleaf': draw(leaves.leaf('plain')),
          'api': draw(st.sampled_from(['set_tagged', 'replace', 'replace_deepcopy'])), 'ops': ops}


def strategy(tier):
  return strategy_(tier)


_ANNOTATED = {'things:annotated_fn': {'x': 'TagA', 'y': 'TagC'},
              'things:annotated_po': {0: 'TagB', 'a': 'TagX', 'k': 'TagA'}}


def reachable_buildables(root):
  seen, out = set(), []
  for _, v in C.walk(root):
    if isinstance(v, fdl.Buildable) and id(v) not in seen:
      seen.add(id(v))
      out.append(v)
  return out


def snapshot(root):
  snap = {}
  for b in reachable_buildables(root):
    snap[id(b)] = (b, dict(b.__arguments__), {k: set(v) for k, v in b.__argument_tags__.items() if v})
  return snap


def _matches(tags, T):
  return any(issubclass(t, T) for t in tags)


class TagModel:
  """dict-of-sets model of the tag API on one Buildable."""

  def __init__(self, b):
    self.info = recipes.ParamInfo(b.__fn_or_cls__)
    self.tags = {k: set(v) for k, v in b.__argument_tags__.items() if v}

  def key(self, arg):
    """Returns the storage key or raises the expected exception class."""
    i = self.info
    if isinstance(arg, str):
      if arg in i.posonly or (i.varargs and arg == next(p.name for p in i.params if p.kind == p.VAR_POSITIONAL)):
        raise AttributeError(arg)
      if arg in i.poskw or arg in i.kwonly or i.varkw:
        return arg
      raise AttributeError(arg)
    if arg < 0:
      raise IndexError(arg)
    if i.varargs:
      return i.key_of(arg) if arg < i.npos else arg
    if arg >= i.npos:
      raise IndexError(arg)
    return i.key_of(arg)


def check(case):
  out = Outcome()
  try:
    root, objs = dags.build(case['recipe'])
  except Exception as e:  # pylint: disable=broad-except
    out.add('construction-raises', exc_kind(e), fiddle_frame(e), '', repr(e)[:300])
    return out
  T = vtags.ALL[case['T']]
  bs = reachable_buildables(root)
  # (0) tags right after construction: Annotated tags, tags of TaggedValues passed to the
  #     constructor and add_tag calls accumulate (expected sets computed from the recipe alone)
  nodes = case['recipe']['nodes']
  for i, nd in enumerate(nodes):
    if nd['k'] != 'B' or nd.get('bt') == 'DictConfig' or nd.get('edits'):
      continue
    info = recipes.ParamInfo(recipes.resolve_fn(nd['fn']))
    def norm(k, info=info):
      if isinstance(k, str) and k in info.posonly:
        return info.posonly.index(k)
      if isinstance(k, int) and not isinstance(k, bool) and 0 <= k < info.npos:
        return info.key_of(k)      # an index of a positional-or-keyword parameter means its name
      return k

    def tv_tags(r):
      ts = set()
      while isinstance(r, int) and nodes[r]['k'] == 'TV':
        ts.update(vtags.ALL[t] for t in nodes[r]['tags'])
        r = nodes[r].get('value')   # a TaggedValue whose value is a TaggedValue passes its tags on
      return ts

    exp = collections.defaultdict(set)
    for k, t in _ANNOTATED.get(nd['fn'].get('name'), {}).items():
      exp[k].add(vtags.ALL[t])
    for j, r in enumerate(nd.get('pos', [])):
      if isinstance(r, int) and nodes[r]['k'] == 'TV':
        exp[info.key_of(j) if j < info.npos else j].update(tv_tags(r))
    for name, r in nd.get('kw', {}).items():
      if isinstance(r, int) and nodes[r]['k'] == 'TV':
        exp[name].update(tv_tags(r))
    for k, t in nd.get('tags', []):
      exp[norm(k)].add(vtags.ALL[t])
    have = {k: set(v) for k, v in objs[i].__argument_tags__.items() if v}
    if have != {k: v for k, v in exp.items() if v}:
      out.add('tags-after-construction-wrong', 'mismatch', '', nd['fn'].get('name', '?'),
              f'node {i}: have {have} expected {dict(exp)}'[:600])
      return out
  for b in bs:
    for k, ts in b.__argument_tags__.items():
      if ts and isinstance(k, int) and k >= len(b[:]):
        # a tag on a *args slot that does not exist (and is not even the next one): a list
        # cannot have holes, so what set_tagged should do there is unspecified
        out.skipped = 'tag-on-nonexistent-vararg-slot'
        return out
  tagged = [(b, k, ts) for b in bs for k, ts in b.__argument_tags__.items() if ts]
  idn = C.identity_nodes(root)
  pos_tag = any(isinstance(k, int) for _, k, _ in tagged) or any(
      k in recipes.ParamInfo(b.__fn_or_cls__).posonly for b, k, _ in tagged if isinstance(k, str))
  sub_match = any(_matches(ts, T) and T not in ts for _, _, ts in tagged)
  tagged_shared = any(len(idn.get(id(b), (None, []))[1]) > 1 for b, _, _ in tagged)
  tv = any(type(b).__name__ == 'TaggedValueCls' for b in bs)
  if pos_tag:
    out.cls('positional_tag')
  if sub_match:
    out.cls('subclass_match')
  if tagged_shared:
    out.cls('tagged_shared')
  if tv:
    out.cls('tv_in_container')
  out.nontrivial = (len(tagged) >= 2 and sub_match and tagged_shared) or pos_tag
  feat = 'positional-tag' if pos_tag else 'named'

  # (2) list_tags
  want = set()
  for _, _, ts in tagged:
    want |= ts
  try:
    got = set(tagging.list_tags(root))
    got_sup = set(tagging.list_tags(root, add_superclasses=True))
  except Exception as e:  # pylint: disable=broad-except
    out.add('list_tags-raises', exc_kind(e), fiddle_frame(e), feat, repr(e)[:300])
    return out
  if got != want:
    out.add('list_tags-wrong', 'mismatch', '', feat, f'{sorted(map(str, got))} want {sorted(map(str, want))}')
    return out
  want_sup = set(want)
  for t in want:
    for base in inspect.getmro(t):
      if base is not fdl.Tag and isinstance(base, type) and issubclass(base, fdl.Tag):
        want_sup.add(base)
  if got_sup != want_sup:
    out.add('list_tags-superclasses-wrong', 'mismatch', '', feat, '')
    return out

  # (4) survival through transformations (on pristine copies)
  base = C.canon(root)
  survivors = {
      'copy': lambda: copy.copy(root), 'deepcopy': lambda: copy.deepcopy(root),
      'pickle': lambda: pickle.loads(pickle.dumps(root)),
      'cast': lambda: fdl.cast(type(root), root),
      'json': lambda: serialization.load_json(serialization.dump_json(root)),
  }
  for name, fn in survivors.items():
    try:
      r = fn()
    except Exception as e:  # pylint: disable=broad-except
      if name == 'json':
        out.prereq_failed += 1  # C09 owns serialization failures
        continue
      out.add('transformation-raises', exc_kind(e), fiddle_frame(e), name + ':' + feat, repr(e)[:300])
      return out
    if C.canon(r) != base:
      out.add('tags-or-structure-lost', 'mismatch', '', name + ':' + feat,
              f'in  {str(base)[:500]}\nout {str(C.canon(r))[:500]}')
      return out
  has_pos = any(isinstance(k, int) for b in bs for k in b.__arguments__) or pos_tag
  has_tuple = any(isinstance(v, tuple) and not C.is_internable(v) for _, v in C.walk(root))
  if not has_pos and not has_tuple:
    stripped = copy.deepcopy(root)
    for b in reachable_buildables(stripped):
      b.__argument_tags__.clear()
    try:
      d = diffing.build_diff(stripped, root)
      diffing.apply_diff(d, stripped)
      if C.canon(stripped) != base:
        out.add('tags-lost-through-diff', 'mismatch', '', feat, str(d)[:600])
        return out
      # second pair: every NsA.Same is NsB.Same in old and vice versa (same __name__, distinct tags)
      swap = {vtags.ALL['SameA']: vtags.ALL['SameB'], vtags.ALL['SameB']: vtags.ALL['SameA']}
      swapped = copy.deepcopy(root)
      changed = False
      for b in reachable_buildables(swapped):
        for k, ts in b.__argument_tags__.items():
          new_ts = {swap.get(t, t) for t in ts}
          if new_ts != ts:
            changed = True
            ts.clear()
            ts.update(new_ts)
      if changed:
        out.cls('same_named_tags')
        d = diffing.build_diff(swapped, root)
        diffing.apply_diff(d, swapped)
        if C.canon(swapped) != base:
          out.add('tags-lost-through-diff', 'mismatch', '', feat + ':same-named-tags', str(d)[:600])
          return out
      # third pair: in old, Base nodes are LeafCls nodes with a tag on the parameter only LeafCls
      # has (callable change and tag removal in one diff)
      older = copy.deepcopy(root)
      changed = False
      for b in reachable_buildables(older):
        if b.__fn_or_cls__ is things.Base:
          fdl.update_callable(b, things.LeafCls)
          fdl.add_tag(b, 'extra', vtags.ALL[case['T']])
          changed = True
      if changed:
        out.cls('callable_change_and_tag_removal')
        d = diffing.build_diff(older, root)
        diffing.apply_diff(d, older)
        if C.canon(older) != base:
          out.add('tags-lost-through-diff', 'mismatch', '', feat + ':callable-change', str(d)[:600])
          return out
        # fourth pair: as the third, and the tags on parameters that both callables have differ too
        # (x loses its tags, y gains one): callable change, AddTag and RemoveTag on one node
        older = copy.deepcopy(root)
        for b in reachable_buildables(older):
          if b.__fn_or_cls__ is things.Base:
            fdl.update_callable(b, things.LeafCls)
            fdl.add_tag(b, 'extra', vtags.ALL[case['T']])
            fdl.clear_tags(b, 'x')
            fdl.add_tag(b, 'y', vtags.ALL[case['T']])
        d = diffing.build_diff(older, root)
        diffing.apply_diff(d, older)
        if C.canon(older) != base:
          out.add('tags-lost-through-diff', 'mismatch', '', feat + ':callable-and-tag-change', str(d)[:600])
          return out
    except Exception as e:  # pylint: disable=broad-except
      out.add('diff-of-tags-raises', exc_kind(e), fiddle_frame(e), feat, repr(e)[:300])
      return out

  # (5) TaggedValue build
  for mode in ('filled', 'unfilled'):
    tvv = fdl.TaggedValue([T], default=5) if mode == 'filled' else fdl.TaggedValue([T])
    cfg = fdl.Config(things.ident, x=[tvv])
    try:
      r = fdl.build(cfg)
      if mode == 'unfilled':
        out.add('unfilled-tagged-value-built', 'returned', '', '', repr(r))
      elif r.bound['x'] != [5]:
        out.add('tagged-value-built-wrong', 'mismatch', '', '', repr(r))
    except Exception as e:  # pylint: disable=broad-except
      # the property only says the build fails for an unfilled TaggedValue (any exception)
      if mode == 'filled':
        out.add('filled-tagged-value-raises', exc_kind(e), fiddle_frame(e), '', repr(e)[:200])

  # (3) tag operation sequence on the root against the model
  work = copy.deepcopy(root)
  model = TagModel(work)
  for oi, op in enumerate(case['ops']):
    arg = op['arg']
    tg = vtags.ALL[op['tag']]
    before = {k: set(v) for k, v in work.__argument_tags__.items() if v}
    try:
      key = model.key(arg)
      exp_exc = None
    except (AttributeError, IndexError) as e:
      key, exp_exc = None, type(e)
    kind = op['op']
    if exp_exc is None and kind == 'remove' and tg not in model.tags.get(key, set()):
      exp_exc = ValueError
    try:
      if kind == 'add':
        tagging.add_tag(work, arg, tg)
      elif kind == 'remove':
        tagging.remove_tag(work, arg, tg)
      elif kind == 'set':
        tagging.set_tags(work, arg, [vtags.ALL[t] for t in op['tags']])
      elif kind == 'clear':
        tagging.clear_tags(work, arg)
      else:
        got_tags = tagging.get_tags(work, arg)
      raised = None
    except Exception as e:  # pylint: disable=broad-except
      raised = e
    ofeat = f"{kind}:{'index' if isinstance(arg, int) else 'name'}"
    if exp_exc is not None:
      if raised is None:
        out.add('invalid-tag-op-accepted', 'no-exception', '', ofeat, f'op {oi} {op} on {work!r}'[:500])
        break
      after = {k: set(v) for k, v in work.__argument_tags__.items() if v}
      if after != before:
        out.add('rejected-tag-op-changed-tags', 'mismatch', '', ofeat, f'op {oi} {op}')
        break
      continue
    if raised is not None:
      out.add('valid-tag-op-raised', exc_kind(raised), fiddle_frame(raised), ofeat,
              f'op {oi} {op}: {raised!r} on {work!r}'[:600])
      break
    if kind == 'add':
      model.tags.setdefault(key, set()).add(tg)
    elif kind == 'remove':
      model.tags[key].discard(tg)
    elif kind == 'set':
      model.tags[key] = {vtags.ALL[t] for t in op['tags']}
    elif kind == 'clear':
      model.tags[key] = set()
    elif kind == 'get' and set(got_tags) != model.tags.get(key, set()):
      out.add('get_tags-wrong', 'mismatch', '', ofeat, f'op {oi} {op}')
      break
    after = {k: set(v) for k, v in work.__argument_tags__.items() if v}
    if after != {k: v for k, v in model.tags.items() if v}:
      out.add('tag-sets-differ-from-model', 'mismatch', '', ofeat,
              f'op {oi} {op}: {after} model {model.tags}')
      break
  if out.findings:
    return out
  if C.canon(root) != base:
    out.add('tag-ops-on-deepcopy-changed-original', 'mismatch', '', feat, '')
    return out

  # (1) frame condition of set_tagged / select(tag=).replace
  if case['v'] == 'leaf':
    v = leaves.dec(case['vleaf'])
  elif case['v'] == 'list':
    v = ['replacement', 1]
  else:
    v = fdl.Config(things.ident, x='replacement')
  snap = snapshot(root)
  api = case['api']
  try:
    if api == 'set_tagged':
      fdl.set_tagged(root, tag=T, value=v)
    else:
      selectors.select(root, tag=T).replace(v, deepcopy=(api == 'replace_deepcopy'))
  except Exception as e:  # pylint: disable=broad-except
    out.add('set-tagged-raises', exc_kind(e), fiddle_frame(e), api + ':' + feat, f'{e!r} on {root!r}'[:700])
    return out
  vterm = C.canon(v)
  for b in reachable_buildables(root):
    if id(b) not in snap:
      continue  # part of v
    _, old_args, old_tags = snap[id(b)]
    new_tags = {k: set(ts) for k, ts in b.__argument_tags__.items() if ts}
    if new_tags != old_tags:
      out.add('set-tagged-changed-tags', 'mismatch', '', api + ':' + feat, repr(b)[:300])
      return out
    keys = set(old_args) | set(b.__arguments__) | set(old_tags)
    for k in keys:
      hit = _matches(old_tags.get(k, ()), T)
      if hit:
        if k not in b.__arguments__:
          out.add('tagged-argument-not-set', 'mismatch', '', api + ':' + feat, f'{k!r} of {b!r}'[:300])
          return out
        cur = b.__arguments__[k]
        same = (cur is v) if api != 'replace_deepcopy' else (C.canon(cur) == vterm)
        if not same and not (C.is_leaf(v) and C.canon(cur) == vterm):
          out.add('tagged-argument-has-wrong-value', 'mismatch', '', api + ':' + feat, f'{k!r}={cur!r}'[:300])
          return out
      else:
        if (k in old_args) != (k in b.__arguments__) or (k in old_args and b.__arguments__[k] is not old_args[k]):
          out.add('untagged-argument-changed', 'mismatch', '', api + ':' + feat, f'{k!r} of {b!r}'[:300])
          return out
  return out
