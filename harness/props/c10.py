"""C10 — applying build_diff(old, new) to old yields new."""

import copy
import json

import fiddle as fdl
from fiddle import daglish
from fiddle._src import diffing
from hypothesis import strategies as st

from harness import canon as C
from harness.gen import dags, leaves
from harness.runner import Outcome, exc_kind, fiddle_frame
from harness.vuni import tags as vtags
from harness.vuni import things

RULE = (
    'Generated: pairs (old, new) whose roots are Buildables of the same type: (a) two '
    'independent DAG recipes, (b) new = shallow copy of old\'s root sharing all sub-objects by '
    'identity, then edited at the top level (moves, new aliases, deletions), (c) new = k<=6 '
    'random edits of deepcopy(old): value change, callable swap (compatible and with dropped '
    'arguments), argument add/remove, tag add/remove, alias created, alias broken, subtree '
    'moved, list append/pop, dict key add/remove. Oracle: build_diff returns; apply_diff on a '
    'deep copy of old returns None, keeps the root object, and the result has the canonical '
    'form of new (callables, arguments, tags, sharing); diff and new unchanged by application; '
    'diff of a configuration with its deep copy is empty. Fiddle\'s own == is not used. '
    'Non-trivial: the pair differs in >=2 edit kinds including an aliasing edit or a callable swap.'
)
RULE += (' ' + 'Round 7: NaN leaves (a value that is not equal to itself; an untouched NaN is no change).')
RULE += (' ' + 'Also generated: callables with **kwargs (kwf/kwg, identical signatures), tags on **kwargs arguments, and a callable swap assembled without update_callable.')
ASSUMPTIONS = [
    'alignment heuristics admit many valid diffs; only the round trip is judged',
    'roots are Buildables of the same type (property precondition)',
]
BUDGET = {'quick': 16 * 1200, 'thorough': 16 * 15000}
FLOORS = {'mode_edits': 0.271, 'alias_edit_or_swap': 0.2}

EDIT_KINDS = ['value', 'value', 'swap_compat', 'swap_drop', 'swap_direct', 'add_arg', 'del_arg', 'add_tag', 'remove_tag',
              'alias_create', 'alias_break', 'move', 'list_append', 'list_pop', 'dict_set', 'dict_del']
_FNS = ['things:f2', 'things:h1', 'things:Base', 'things:Other', 'things:LeafCls', 'things:kwf']


@st.composite
def strategy_(draw, tier, extra_kinds=True):
  kinds = ['B', 'B', 'B', 'B', 'list', 'list', 'list', 'dict', 'dict', 'nt', 'tuple']
  if extra_kinds:
    # further node kinds of the shared generator that this check's oracle handles (each once);
    # C13 re-uses this strategy without them (the fiddler generator rejects values it cannot print)
    kinds += ['TV', 'mdict', 'set', 'fset', 'ltuple', 'ntuple', 'Bpos', 'Bmut', 'Bmut1', 'Bmutnest', 'Bpo', 'Bpo3',
              'Bdc', 'Bempty', 'AFP', 'odict', 'dcinst', 'Bclash', 'ddict', 'kdict']
  if draw(st.floats(0, 1)) < 0.06:
    kinds = kinds + ['Bpos', 'Bpos']
  old = draw(dags.dag(max_nodes=9, min_nodes=2, kinds=kinds, fns=_FNS, root_kinds=['B'], leaf_profile='plain_nan',
                      bts=('Config',), p_alias=0.7, tags=True, allow_copyof=draw(st.booleans())))
  mode = draw(st.sampled_from(['independent', 'edits', 'edits', 'edits', 'shared', 'moved_shared']))
  if mode == 'moved_shared':
    # S is shared by identity between old and new and moves to another argument; a new node of
    # the same shape (small list child of equal length) takes its old place
    n = draw(st.integers(1, 3))
    fn_s = draw(st.sampled_from(['things:f2', 'things:Base']))
    lst = lambda tag: {'k': 'list', 'items': [{'leaf': f'{tag}{i}'} for i in range(n)]}
    slots = draw(st.permutations(['b', 'c', 'd', 'e']))
    nodes = [lst('s'),
             {'k': 'B', 'bt': 'Config', 'fn': {'kind': 'sym', 'name': fn_s}, 'pos': [],
              'kw': {'x': {'leaf': 'uidS'}, 'child': 0}, 'edits': []},
             {'k': 'B', 'bt': 'Config', 'fn': {'kind': 'sym', 'name': 'things:h1'}, 'pos': [],
              'kw': {'a': {'leaf': 'uidR'}, slots[0]: 1}, 'edits': []}]
    return {'old': {'nodes': nodes, 'root': 2}, 'mode': mode, 'from': slots[0], 'to': slots[1],
            'n': n, 'fn_new': draw(st.sampled_from(['things:f2', 'things:Base', fn_s])),
            'keep_alias': draw(st.booleans())}
  case = {'old': old, 'mode': mode}
  if draw(st.floats(0, 1)) < 0.25:
    for nd in old['nodes']:
      if nd['k'] == 'B':
        nd['bt'] = 'Partial'
    case['bt'] = 'Partial'
  if mode == 'independent':
    new = draw(dags.dag(max_nodes=9, min_nodes=2, kinds=kinds, fns=_FNS, root_kinds=['B'], leaf_profile='plain_nan',
                        bts=('Config',), p_alias=0.7, tags=True))
    if case.get('bt') == 'Partial':
      for nd in new['nodes']:
        if nd['k'] == 'B':
          nd['bt'] = 'Partial'
    case['new'] = new
  else:
    n = draw(st.integers(1, 6))
    case['edits'] = [{'kind': draw(st.sampled_from(EDIT_KINDS)), 'a': draw(st.integers(0, 40)),
                      'b': draw(st.integers(0, 40)), 'c': draw(st.integers(0, 40)),
                      'val': draw(leaves.leaf('plain')), 'tag': draw(st.sampled_from(['TagA', 'TagB', 'TagX']))}
                     for _ in range(n)]
  return case


def strategy(tier, extra_kinds=True):
  return strategy_(tier, extra_kinds)


def _buildables(root):
  seen, out = set(), []
  for _, v in C.walk(root):
    if isinstance(v, fdl.Buildable) and id(v) not in seen:
      seen.add(id(v))
      out.append(v)
  return out


def _containers(root, typ):
  seen, out = set(), []
  for _, v in C.walk(root):
    if type(v) is typ and id(v) not in seen:
      seen.add(id(v))
      out.append(v)
  return out


def _objects(root):
  seen, out = set(), []
  for _, v in C.walk(root):
    if isinstance(v, (fdl.Buildable, list, dict)) and id(v) not in seen:
      seen.add(id(v))
      out.append(v)
  return out


_PARAMS = {things.f2: ['x', 'y', 'child'], things.h1: ['a', 'b', 'c', 'd', 'e'],
           things.Base: ['x', 'y', 'child'], things.Other: ['x', 'y', 'child'],
           things.Mid: ['x', 'y', 'child'], things.LeafCls: ['x', 'y', 'child', 'extra'],
           things.kwf: ['a', 'z0', 'z1'], things.kwg: ['a', 'z0', 'z1']}
_COMPAT = {things.f2: things.Base, things.Base: things.Other, things.Other: things.f2,
           things.LeafCls: things.Base, things.Mid: things.Base, things.kwf: things.kwg, things.kwg: things.kwf}


def _reaches(a, b):
  """True if b is reachable from a (would create a cycle when a becomes b's descendant)."""
  for _, v in C.walk(a):
    if v is b:
      return True
  return False


def apply_edit(root, e, top_only=False):
  """Applies one edit to `root` (object level); returns the kind applied or None."""
  bs = [root] if top_only else _buildables(root)
  b = bs[e['a'] % len(bs)]
  params = _PARAMS.get(b.__fn_or_cls__)
  if params is None:
    return None
  kind = e['kind']
  val = leaves.dec(e['val'])
  p = params[e['b'] % len(params)]
  if kind == 'value':
    setattr(b, p, val)
    return kind
  if kind == 'swap_compat':
    new_fn = _COMPAT.get(b.__fn_or_cls__)
    if new_fn is None or (b.__fn_or_cls__ is things.LeafCls and 'extra' in b.__arguments__):
      return None
    fdl.update_callable(b, new_fn)
    return kind
  if kind == 'swap_direct':
    # kwf and kwg have the same signature: the swapped Buildable is assembled without
    # update_callable, so `new` does not depend on the function the diff is applied with
    other = {things.kwf: things.kwg, things.kwg: things.kwf}.get(b.__fn_or_cls__)
    if other is None:
      return None
    object.__setattr__(b, '__fn_or_cls__', other)
    return 'swap_compat_direct'
  if kind == 'swap_drop':
    new_fn = things.h1 if b.__fn_or_cls__ is not things.h1 else things.f2
    fdl.update_callable(b, new_fn, drop_invalid_args=True)
    return kind
  if kind == 'add_arg':
    unset = [q for q in params if q not in b.__arguments__]
    if not unset:
      return None
    setattr(b, unset[e['b'] % len(unset)], val)
    return kind
  if kind == 'del_arg':
    setp = [q for q in params if q in b.__arguments__]
    if not setp:
      return None
    delattr(b, setp[e['b'] % len(setp)])
    return kind
  if kind == 'add_tag':
    fdl.add_tag(b, p, vtags.ALL[e['tag']])
    return kind
  if kind == 'remove_tag':
    tagged = [(q, t) for q, ts in b.__argument_tags__.items() for t in sorted(ts, key=str) if isinstance(q, str)]
    if not tagged:
      return None
    q, t = tagged[e['b'] % len(tagged)]
    fdl.remove_tag(b, q, t)
    return kind
  objs = _objects(root)
  if kind == 'alias_create':
    tgt = objs[e['c'] % len(objs)]
    if _reaches(tgt, b):
      return None
    setattr(b, p, tgt)
    return kind
  if kind == 'alias_break':
    cands = [q for q in params if q in b.__arguments__ and isinstance(b.__arguments__[q], (fdl.Buildable, list, dict))]
    if not cands:
      return None
    q = cands[e['b'] % len(cands)]
    setattr(b, q, copy.deepcopy(b.__arguments__[q]))
    return kind
  if kind == 'move':
    src = bs[e['c'] % len(bs)]
    sp = [q for q in _PARAMS.get(src.__fn_or_cls__, []) if q in src.__arguments__]
    if not sp:
      return None
    q = sp[e['b'] % len(sp)]
    v = src.__arguments__[q]
    if not C.is_leaf(v) and _reaches(v, b):
      return None
    delattr(src, q)
    setattr(b, p, v)
    return kind
  if top_only:
    return None
  if kind in ('list_append', 'list_pop'):
    ls = _containers(root, list)
    if not ls:
      return None
    l = ls[e['c'] % len(ls)]
    if kind == 'list_append':
      l.append(val)
    elif l:
      l.pop()
    else:
      return None
    return kind
  if kind in ('dict_set', 'dict_del'):
    ds = _containers(root, dict)
    if not ds:
      return None
    d = ds[e['c'] % len(ds)]
    if kind == 'dict_set':
      d['newkey' if e['b'] % 2 else 'a'] = val
    elif d:
      del d[sorted(d, key=repr)[e['b'] % len(d)]]
    else:
      return None
    return kind
  return None


def _features(old, new):
  f = set()
  for root in (old, new):
    for _, v in C.walk(root):
      if isinstance(v, fdl.Buildable) and (any(isinstance(k, int) for k in v.__arguments__) or any(
          isinstance(k, int) and ts for k, ts in v.__argument_tags__.items())):
        f.add('positional-arg')   # an argument or a tag keyed by position
  return f


def _diff_modifies_inside_tuple(diff, old):
  """The diff addresses an element of a (named) tuple of `old`: tuples are immutable, so such
  an operation cannot be applied (input feature of a known finding)."""
  for ch in diff.changes:
    tgt = ch.target
    if not tgt:
      continue
    try:
      parent = daglish.follow_path(old, tgt[:-1])
    except Exception:  # pylint: disable=broad-except
      continue
    if isinstance(parent, tuple):
      return True
  return False


def make_pair(case):
  """Builds (old, new, applied edit kinds) for a case; raises RecursionError for cyclic results."""
  old, _ = dags.build(case['old'])
  mode = case['mode']
  applied = []
  if mode == 'independent':
    new, _ = dags.build(case['new'])
  elif mode == 'moved_shared':
    new = copy.copy(old)
    sobj = old.__arguments__[case['from']]
    setattr(new, case['to'], sobj)
    repl = fdl.Config(things.resolve_symbol(case['fn_new']), x='uidNew',
                      child=[f'n{i}' for i in range(case['n'])])
    setattr(new, case['from'], repl)
    applied = ['move', 'alias_create']
  else:
    new = copy.deepcopy(old) if mode == 'edits' else copy.copy(old)
    for e in case['edits']:
      try:
        k = apply_edit(new, e, top_only=(mode != 'edits'))
      except (TypeError, AttributeError, NotImplementedError):
        k = None
      if k:
        applied.append(k)
  C.canon(new)
  list(C.walk(new))
  return old, new, applied


def check(case):
  out = Outcome()
  mode = case['mode']
  try:
    old, new, applied = make_pair(case)
  except RecursionError:
    out.skipped = 'recursion-or-cyclic-new'
    return out
  if type(old) is not type(new):
    out.skipped = 'root-types-differ'
    return out
  out.cls('mode_' + mode)
  aliasish = {'alias_create', 'alias_break', 'move', 'swap_compat', 'swap_drop'}
  if set(applied) & aliasish:
    out.cls('alias_edit_or_swap')
  out.nontrivial = len(set(applied)) >= 2 and bool(set(applied) & aliasish) or mode == 'independent'
  feats = _features(old, new)
  feat = ','.join(sorted(feats)) or 'plain'
  swap = 'swap' if any(k.startswith('swap') for k in applied) else ''

  old_before = C.canon(old, history=False)
  new_before = C.canon(new)
  # an opaque leaf object (a dataclass instance) is what its own == says: Fiddle cannot look inside
  new_want = C.canon(new, opaque_by_eq=True)
  try:
    diff = diffing.build_diff(old, new)
  except Exception as e:  # pylint: disable=broad-except
    out.add('build_diff-raises', exc_kind(e), fiddle_frame(e), feat, f'{e!r}\nold={old!r}\nnew={new!r}'[:1500])
    return out
  if C.canon(old) != old_before or C.canon(new) != new_before:
    out.add('build_diff-modified-input', 'mismatch', '', feat, '')
    return out
  diff_before = C.canon(diff)
  if _diff_modifies_inside_tuple(diff, old):
    feat = 'change-inside-aligned-tuple'
    swap = ''
    out.cls('change_inside_tuple')
  work = copy.deepcopy(old)
  try:
    res = diffing.apply_diff(diff, work)
  except Exception as e:  # pylint: disable=broad-except
    out.add('apply_diff-raises', exc_kind(e), fiddle_frame(e), feat + (':' + swap if swap else ''),
            f'{e!r}\nold={old!r}\nnew={new!r}\ndiff={diff}'[:2500])
    return out
  if res is not None:
    out.add('apply_diff-returned-value', 'mismatch', '', feat, repr(res)[:100])
  got = C.canon(work, opaque_by_eq=True)
  if got != new_want:
    sh = 'values' if C.canon(work, sharing=False, opaque_by_eq=True) != C.canon(new, sharing=False, opaque_by_eq=True) else 'sharing-only'
    out.add('round-trip-differs', sh, '', feat + (':' + swap if swap else ''),
            f'applied {applied}\nold={old!r}\nnew={new!r}\ngot={work!r}\ndiff={diff}'[:3000])
    return out
  if C.canon(diff) != diff_before:
    out.add('apply_diff-modified-diff', 'mismatch', '', feat, '')
  if C.canon(new) != new_before:
    out.add('apply_diff-modified-new', 'mismatch', '', feat, '')
  # diff against own deep copy is empty
  try:
    d0 = diffing.build_diff(old, copy.deepcopy(old))
  except Exception as e:  # pylint: disable=broad-except
    out.add('build_diff-raises', exc_kind(e), fiddle_frame(e), feat, f'self-diff: {e!r}')
    return out
  if d0.changes or d0.new_shared_values:
    out.add('diff-with-deepcopy-not-empty', 'mismatch', '', feat, str(d0)[:600])
  return out
