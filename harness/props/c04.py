"""C04 — built Partial is functools.partial; ArgFactory arguments are fresh per call."""

import collections

import fiddle as fdl
from hypothesis import strategies as st

from harness import canon as C
from harness import refmodel as R
from harness.gen import dags, leaves, recipes
from harness.runner import Outcome, exc_kind, fiddle_frame
import harness.vuni as vuni

RULE = (
    'Generated: a root fdl.Partial over a generated signature shape (function or class) or a '
    'simple callable, whose arguments are leaves, Configs, ArgFactories (with arguments that '
    'are leaves, Configs or further ArgFactories), nested Partials and lists/tuples/dicts of '
    'these (ArgFactory in containers, ArgFactory of ArgFactory, Config inside ArgFactory, '
    'Partial inside Partial, ArgFactory as positional argument); then 2-4 calls of the built '
    'callable with generated positional extras and overriding keywords. Oracle: hand-written '
    'two-stage reference (build once / materialise factories per call, functools.partial '
    'binding); per call equal outcome (both raise, or equal canonical result incl. sharing), '
    'joint canonical form of all call results (captures fresh-vs-reused across calls), equal '
    'invocation counts at build time and per call. Non-trivial: an ArgFactory nested in a '
    'container or in another ArgFactory and >=2 calls one of which overrides a keyword. '
    'Distinct = distinct SHA-1 of the case JSON.'
)
RULE += (' ' + 'Round 4: ArgFactories whose bound arguments are all positional (positional-only, *args).')
ASSUMPTIONS = [
    'two-stage reference in this file (RefPartial/Marker) is correct',
    'an ArgFactory instance (and any container holding one) is referenced once: sharing of a '
    'single ArgFactory inside one call is unspecified and not generated',
    'ArgFactory directly under fdl.Config is documented as unsupported and not generated',
    'callables inside results are compared behaviourally (called with no arguments)',
]
BUDGET = {'quick': 16 * 500, 'thorough': 16 * 12000}
FLOORS = {'af_nested': 0.177, 'kw_override': 0.219, 'positional_af': 0.03}

_AF_FNS = ['things:make_rec', 'things:make_list', 'things:f2', 'things:ident', 'things:make_any', 'things:make_arr']


@st.composite
def strategy_(draw, tier):
  leaf_st = leaves.leaf('plain')
  nodes = []
  taint = []  # node contains an ArgFactory (single use)
  used = set()
  n = draw(st.integers(0, 9))

  def pick(allow_taint, p_alias=0.6):
    cands = [i for i in range(len(nodes)) if (not taint[i]) or (allow_taint and i not in used)]
    if cands and draw(st.floats(0, 1)) < p_alias:
      # prefer tainted unused nodes so that ArgFactories actually get used
      tcands = [i for i in cands if taint[i]]
      i = draw(st.sampled_from(tcands if (tcands and draw(st.booleans())) else cands))
      if taint[i]:
        used.add(i)
      return i
    return {'leaf': draw(leaf_st)}

  def is_t(r):
    return isinstance(r, int) and taint[r]

  for _ in range(n):
    kind = draw(st.sampled_from(['C', 'AF', 'AF', 'list', 'tuple', 'dict', 'P']))
    if kind == 'C':
      kw = {'x': {'leaf': f'uid{len(nodes)}'}}
      if draw(st.booleans()):
        kw['child'] = pick(False)
      node = {'k': 'B', 'bt': 'Config', 'fn': {'kind': 'sym', 'name': 'things:f2'}, 'pos': [],
              'kw': kw, 'edits': []}
      t = False
    elif kind == 'AF':
      fn = draw(st.sampled_from(_AF_FNS))
      kw = {}
      if fn == 'things:make_rec' and draw(st.booleans()):
        kw['tag'] = pick(True)
      elif fn == 'things:f2':
        for pn in ('x', 'y', 'child'):
          if draw(st.booleans()):
            kw[pn] = pick(True)
      elif fn == 'things:ident' and draw(st.booleans()):
        kw['x'] = pick(True)
      afpos = []
      if draw(st.sampled_from(range(5))) == 0:
        # a factory whose bound arguments are all passed positionally (positional-only / *args)
        fn = draw(st.sampled_from(['things:po2', 'things:g3']))
        kw = {}
        afpos = [pick(True) for _ in range(draw(st.integers(1, 2)) if fn == 'things:po2' else 3)]
      node = {'k': 'B', 'bt': 'ArgFactory', 'fn': {'kind': 'sym', 'name': fn}, 'pos': afpos,
              'kw': kw, 'edits': []}
      t = True
    elif kind in ('list', 'tuple'):
      items = [pick(True) for _ in range(draw(st.integers(1, 3)))]
      node = {'k': kind, 'items': items}
      t = any(is_t(r) for r in items)
    elif kind == 'dict':
      keys = draw(st.lists(st.sampled_from(['a', 'b', 1]), unique=True, min_size=1, max_size=2))
      items = [pick(True) for _ in keys]
      node = {'k': 'dict', 'keys': keys, 'items': items}
      t = any(is_t(r) for r in items)
    else:  # nested Partial over f2
      kw = {}
      for pn in ('x', 'y', 'child'):
        if draw(st.booleans()):
          kw[pn] = pick(True)
      node = {'k': 'B', 'bt': 'Partial', 'fn': {'kind': 'sym', 'name': 'things:f2'}, 'pos': [],
              'kw': kw, 'edits': []}
      t = False  # a built partial is a value; its factories run when *it* is called
    nodes.append(node)
    taint.append(t)
  # root partial
  if draw(st.booleans()):
    fnspec = {'kind': draw(st.sampled_from(['fn', 'fn', 'Cls'])), 'code': draw(recipes.shape_codes())}
  else:
    fnspec = {'kind': 'sym', 'name': draw(st.sampled_from(['things:g3', 'things:h1', 'things:f2']))}
  pos, kw, edits, pattern = draw(recipes.arg_program(
      fnspec, lambda: pick(True), patterns=['all', 'random', 'random', 'none', 'gap_varargs']))
  nodes.append({'k': 'B', 'bt': 'Partial', 'fn': fnspec, 'pos': pos, 'kw': kw, 'edits': edits})
  info = recipes.ParamInfo(recipes.resolve_fn(fnspec))
  names = info.poskw + info.kwonly + (['z0', 'z9'] if info.varkw else []) + ['nope']
  calls = []
  for _ in range(draw(st.integers(2, 4))):
    cpos = [draw(leaf_st) for _ in range(draw(st.sampled_from([0, 0, 0, 1, 2])))]
    ckw = {}
    for nm in draw(st.lists(st.sampled_from(names), unique=True, max_size=3)):
      ckw[nm] = draw(leaf_st)
    calls.append({'pos': cpos, 'kw': ckw})
  return {'nodes': nodes, 'root': len(nodes) - 1, 'calls': calls}


def strategy(tier):
  return strategy_(tier)


# ---------------------------------------------------------------------------
# reference


class Marker:
  """An ArgFactory after stage 1."""

  def __init__(self, fn, pos, kw):
    self.fn, self.pos, self.kw = fn, pos, kw


class RefPartial:
  """functools.partial semantics + per-call factory materialisation."""

  __vprobe__ = True

  def __init__(self, fn, pos, kw):
    self.fn, self.pos, self.kw = fn, pos, kw

  def __call__(self, *cargs, **ckw):
    kw = dict(self.kw)
    kw.update(ckw)
    overridden = set(ckw)
    pos = [materialize(t) for t in self.pos]
    kwv = {k: (v if k in overridden else materialize(v)) for k, v in kw.items()}
    return self.fn(*pos, *cargs, **kwv)


def contains_marker(t, seen=None):
  seen = seen if seen is not None else set()
  if isinstance(t, Marker):
    return True
  if id(t) in seen:
    return False
  seen.add(id(t))
  if isinstance(t, (list, tuple)):
    return any(contains_marker(e, seen) for e in t)
  if isinstance(t, dict):
    return any(contains_marker(e, seen) for e in t.values())
  return False


def materialize(t):
  if isinstance(t, Marker):
    pos = [materialize(p) for p in t.pos]
    kw = {k: materialize(v) for k, v in t.kw.items()}
    return t.fn(*pos, **kw)
  if isinstance(t, (list, tuple, dict)) and contains_marker(t):
    if C.is_namedtuple(t):
      return type(t)(*[materialize(e) for e in t])
    if isinstance(t, (list, tuple)):
      return type(t)(materialize(e) for e in t)
    return {k: materialize(v) for k, v in t.items()}
  return t


def stage1(x, memo):
  if C.is_leaf(x) or C.is_symbol(x):
    return x
  if id(x) in memo:
    return memo[id(x)][1]
  if isinstance(x, fdl.Buildable):
    built = {k: stage1(x.__arguments__[k], memo) for k in C._ordered_keys(x)}  # pylint: disable=protected-access
    pos, kw = R.form_call(x.__fn_or_cls__, built)
    if type(x) is fdl.Config:
      result = x.__fn_or_cls__(*pos, **kw)
    elif type(x) is fdl.Partial:
      result = RefPartial(x.__fn_or_cls__, pos, kw)
    elif type(x) is fdl.ArgFactory:
      result = Marker(x.__fn_or_cls__, pos, kw)
    else:
      raise NotImplementedError(type(x))
  elif type(x) is list:
    result = [stage1(v, memo) for v in x]
  elif type(x) is tuple:
    result = tuple(stage1(v, memo) for v in x)
  elif type(x) is dict:
    result = {k: stage1(v, memo) for k, v in x.items()}
  else:
    return x
  memo[id(x)] = (x, result)
  return result


def _canon_calls(results):
  return C.Canon(callable_probe=True).term(results)


def check(case):
  out = Outcome()
  try:
    root, objs = dags.build(case)
  except Exception as e:  # pylint: disable=broad-except
    out.skipped = 'construction_raised:' + type(e).__name__
    return out
  # features
  af_nested = False
  positional_af = False
  for nd in case['nodes']:
    refs = list(nd.get('items', [])) + list(nd.get('kw', {}).values()) + list(nd.get('pos', []))
    for r in refs:
      if isinstance(r, int) and case['nodes'][r].get('bt') == 'ArgFactory':
        if nd['k'] in ('list', 'tuple', 'dict') or nd.get('bt') == 'ArgFactory':
          af_nested = True
  rootnode = case['nodes'][case['root']]
  for key, v in root.__arguments__.items():
    if isinstance(key, int):
      for _, w in C.walk(v):
        if isinstance(w, fdl.ArgFactory):
          positional_af = True
  kw_override = sum(1 for c in case['calls'] if set(c['kw']) & set(
      k for k in root.__arguments__ if isinstance(k, str))) > 0
  if af_nested:
    out.cls('af_nested')
  if kw_override:
    out.cls('kw_override')
  if positional_af:
    out.cls('positional_af')
  out.nontrivial = af_nested and kw_override and len(case['calls']) >= 2
  feature = ('posaf' if positional_af else '') + ('nested' if af_nested else 'flat')

  # reference stage 1
  vuni.reset_log()
  try:
    ref = stage1(root, {})
    ref_err = None
  except R.CannotFormCall as e:
    ref, ref_err = None, e
  except Exception as e:  # pylint: disable=broad-except
    ref, ref_err = None, e
  ref_build_calls = len(vuni.LOG)

  vuni.reset_log()
  try:
    real = fdl.build(root)
    real_err = None
  except Exception as e:  # pylint: disable=broad-except
    real, real_err = None, e
  real_build_calls = len(vuni.LOG)

  if ref_err is not None:
    out.cls('build_cannot_form')
    if real_err is None:
      # the partial may legitimately defer the error to call time only if no call can succeed
      try:
        real()
        out.add('built-partial-callable-although-call-not-formable', 'returned', '', feature,
                f'reference: {ref_err!r}; cfg={root!r}')
      except Exception:  # pylint: disable=broad-except
        pass
    return out
  if real_err is not None:
    out.add('build-raises', exc_kind(real_err), fiddle_frame(real_err), feature,
            f'{real_err!r}; cfg={root!r}')
    return out
  if real_build_calls != ref_build_calls:
    out.add('build-time-invocation-count', 'mismatch', '', feature,
            f'{real_build_calls} vs reference {ref_build_calls}; cfg={root!r}')
    return out
  if not callable(real):
    out.add('built-partial-not-callable', 'mismatch', '', feature, repr(real))
    return out

  real_results, ref_results = [], []
  for ci, call in enumerate(case['calls']):
    cpos = [leaves.dec(v) for v in call['pos']]
    ckw = {k: leaves.dec(v) for k, v in call['kw'].items()}
    vuni.reset_log()
    try:
      e_res, e_kind = ref(*cpos, **ckw), 'value'
    except TypeError as e:
      e_res, e_kind = e, 'raises'
    e_calls = len(vuni.LOG)
    vuni.reset_log()
    try:
      a_res, a_kind = real(*cpos, **ckw), 'value'
    except Exception as e:  # pylint: disable=broad-except
      a_res, a_kind = e, 'raises'
    a_calls = len(vuni.LOG)
    if e_kind != a_kind:
      out.add('call-outcome', f'ref-{e_kind}-real-{a_kind}',
              fiddle_frame(a_res) if a_kind == 'raises' else '', feature,
              f'call {ci} {call}: reference {e_res!r}, real {a_res!r}; cfg={root!r}')
      return out
    if e_kind == 'raises':
      out.cls('call_raises')
      continue
    real_results.append(a_res)
    ref_results.append(e_res)
    if _canon_calls([a_res]) != _canon_calls([e_res]):
      out.add('call-result-differs', 'mismatch', '', feature,
              f'call {ci} {call}: reference {e_res!r}\nreal {a_res!r}\ncfg={root!r}')
      return out
    if e_calls != a_calls:
      out.add('per-call-invocation-count', 'mismatch', '', feature,
              f'call {ci} {call}: {a_calls} invocations vs reference {e_calls}; cfg={root!r}')
      return out
  if len(real_results) >= 2:
    out.cls('two_successful_calls')
    if _canon_calls(real_results) != _canon_calls(ref_results):
      out.add('fresh-vs-reused-across-calls', 'identity', '', feature,
              f'results {real_results!r}\nreference {ref_results!r}\ncfg={root!r}')
  return out
