"""C19 — threads working on different configurations do not interfere."""

import copy
import itertools

import fiddle as fdl
from fiddle._src import building
from fiddle._src import history as H
from fiddle._src import signatures
from fiddle._src.experimental import serialization
from hypothesis import strategies as st

from harness import canon as C
from harness import sched
from harness.runner import Outcome, exc_kind, fiddle_frame
import harness.vuni as vuni
from harness.vuni import tags as vtags
from harness.vuni import things

RULE = (
    'Generated: 2-3 thread programs drawn from a vocabulary (build of a nested config; edits '
    'inside and outside nested suspend_tracking; tag edits; deepcopy + ==; dump_json/load_json; '
    'first-time fdl.Config of a callable created for this scenario and shared by the threads, '
    'also of a bound method in one thread and of the plain function it wraps in another '
    '(cold signature / type-hint caches); a failing build with an exception class created for '
    'this scenario; select/set) over disjoint configurations, and a schedule: up to 6 '
    'pre-emption points (thread, fraction of its own solo step count -- optionally snapped to '
    'the nearest step inside a module that owns cross-thread state --, thread to run next). '
    'Threads are real threading.Threads serialised by a sys.monitoring LINE-event scheduler. '
    'Oracle: every thread returns exactly what the same program returns when run alone '
    '(canonical forms, history shape, exception class), sequence ids are pairwise distinct '
    'across threads and strictly increasing within each thread, the in-build flag and the '
    'tracking flag are as the thread itself set them at every pre-emption. Besides the random '
    'schedules, systematic sweeps over 13 fixed program pairs: a single pre-emption at the first '
    'and at the last occurrence of every distinct source line thread 0 executes (thorough: at '
    'every step), and '
    'all double pre-emptions (0->1 at i, 1->0 at j) over the history.py steps that touch the '
    'tracking flag. Non-trivial: a '
    'pre-emption hits a thread while it is inside fdl.build or inside suspend_tracking, or '
    'inside one of the shared-state modules, and another thread then runs.'
)
RULE += (' ' + 'Rounds 3-4: program method_config; line-coverage single pre-emption sweep over 13 program pairs; double pre-emption sweep over the history.py steps touching the tracking flag.')
ASSUMPTIONS = [
    'CPython with the GIL; switches happen between source lines of fiddle/_src (C code such as '
    'itertools.count.__next__ is atomic in the model, as under the GIL)',
    'pre-emption bounding: at most 6 switches per scenario in the quick tier',
]
BUDGET = {'quick': 16 * 120, 'thorough': 16 * 4000}
FLOORS = {'preempted_in_shared_module': 0.3, 'preempted_in_build_or_suspend': 0.1}
TIME_LIMIT = {'quick': 1200, 'thorough': 6 * 3600}

PROGRAMS = ['build', 'edits', 'tags', 'deepcopy_eq', 'json', 'first_config', 'failing_build', 'select_set', 'build_list',
            'method_config']
SHARED_MODULES = ('history.py', 'building.py', 'signatures.py', 'reraised_exception.py', 'daglish.py', 'config.py')


@st.composite
def strategy_(draw, tier):
  n = draw(st.sampled_from([2, 2, 2, 3]))
  progs = [{'p': draw(st.sampled_from(PROGRAMS)), 'k': draw(st.integers(0, 3))} for _ in range(n)]
  pre = []
  for _ in range(draw(st.integers(1, 6))):
    t = draw(st.integers(0, n - 1))
    pre.append({'t': t, 'f': draw(st.floats(0, 1, allow_nan=False)),
                'snap': draw(st.sampled_from([None, None] + list(SHARED_MODULES))),
                'to': draw(st.integers(0, n - 1))})
  return {'progs': progs, 'pre': pre}


def strategy(tier):
  return strategy_(tier)


def enumerate_cases(tier):
  """Systematic pre-emptions for fixed two-thread scenarios (see the comments below)."""
  pairs = [('build', 'json'), ('edits', 'edits'), ('first_config', 'first_config'), ('failing_build', 'build_list'),
           ('method_config', 'method_config'),
           ('tags', 'deepcopy_eq'), ('build_list', 'build'), ('json', 'select_set'), ('edits', 'first_config'),
           ('deepcopy_eq', 'json'), ('failing_build', 'failing_build'), ('build', 'build'), ('select_set', 'tags')]
  if tier == 'thorough':
    for a, b in pairs:
      for k in range(1, 1500):
        yield {'progs': [{'p': a, 'k': 1}, {'p': b, 'k': 2}], 'pre': [], 'single': k}
  # Line coverage sweep: every distinct fiddle source line executed by thread 0 is used once as a
  # single pre-emption point, at its first and at its last occurrence.
  for a, b in pairs:
    for j in range(420):
      for occ in ('first', 'last'):
        yield {'progs': [{'p': a, 'k': 1}, {'p': b, 'k': 2}], 'pre': [], 'line': j, 'occ': occ}
  # Systematic double pre-emptions (0 -> 1 at step i of thread 0, 1 -> 0 at step j of thread 1, the
  # rest runs to completion): both points range over the steps inside history.py that read or
  # write the tracking flag (quick) / over every history.py step outside the stack walk (thorough).
  dpairs = [('edits', 'edits')] if tier != 'thorough' else [('edits', 'edits'), ('edits', 'tags'), ('tags', 'edits')]
  limit = 40 if tier != 'thorough' else 170
  for a, b in dpairs:
    for i in range(limit):
      for j in range(limit):
        yield {'progs': [{'p': a, 'k': 1}, {'p': b, 'k': 2}], 'pre': [], 'double': [i, j],
               'cand': 'tracking' if tier != 'thorough' else 'history'}


# ---------------------------------------------------------------------------
# thread programs: each returns a JSON-able / canon-able observation


NONMONO = []


def _seqs(cfg_list):
  out = []
  for cfg in cfg_list:
    for b in [v for _, v in C.walk(cfg) if isinstance(v, fdl.Buildable)]:
      for key, entries in b.__argument_history__.items():
        ids = [e.sequence_id for e in entries]
        if any(x >= y for x, y in zip(ids, ids[1:])):
          NONMONO.append((str(key), ids))
        out.extend(ids)
  return out


def _history_shape(cfg):
  return tuple((str(k), tuple(e.kind.name for e in v)) for k, v in sorted(cfg.__argument_history__.items(), key=lambda kv: str(kv[0])))


def make_program(spec, shared):
  p, k = spec['p'], spec['k']
  obs = {}

  def nested(depth):
    c = fdl.Config(things.f2, x=f'leaf{k}')
    for i in range(depth):
      c = fdl.Config(things.f2, x=i, y=[c, {'k': c}], child=c)
    return c

  def build():
    cfg = nested(2 + k)
    r = fdl.build(cfg)
    return ('build', C.canon(r), _seqs([cfg]))

  def build_list():
    cfg = [fdl.Config(things.h1, a=i, b=(i, [i])) for i in range(2 + k)] + [{'d': fdl.Partial(things.f2, x=k)}]
    r = fdl.build(cfg)
    return ('build_list', C.Canon(callable_probe=True).term(r), _seqs(cfg))

  def edits():
    cfg = fdl.Config(things.g3, 1, 2, 3, 4)
    cfg.a = 'x'
    with H.suspend_tracking():
      cfg.b = 'hidden'
      en1 = H.tracking_enabled()
      with H.suspend_tracking():
        cfg.k = 'hidden2'
      en2 = H.tracking_enabled()
    en3 = H.tracking_enabled()
    cfg.k = 'visible'
    del cfg[fdl.VARARGS:]
    cfg[fdl.VARARGS:] = [7, 8, k]
    return ('edits', C.canon(cfg), _history_shape(cfg), (en1, en2, en3), _seqs([cfg]))

  def tags():
    cfg = fdl.Config(things.f2, x=k)
    fdl.add_tag(cfg, 'x', vtags.TagA)
    fdl.add_tag(cfg, 'y', vtags.TagB)
    fdl.set_tagged(cfg, tag=vtags.TagA, value='tagged')
    cfg.y = vtags.TagX.new(5)
    return ('tags', C.canon(cfg), _history_shape(cfg), _seqs([cfg]))

  def deepcopy_eq():
    cfg = nested(2)
    cp = copy.deepcopy(cfg)
    eq = cfg == cp
    cp.x = 'changed'
    ne = cfg == cp
    return ('deepcopy_eq', eq, ne, C.canon(cp), _seqs([cfg, cp]))

  def json_():
    cfg = nested(1 + k)
    fdl.add_tag(cfg, 'x', vtags.TagC)
    s = serialization.dump_json(cfg)
    back = serialization.load_json(s)
    return ('json', len(s), C.canon(back) == C.canon(cfg), _seqs([cfg]))

  def first_config():
    f = shared['fresh_fn']
    cfg = fdl.Config(f, 1, beta=2)
    sig = signatures.get_signature(f)
    hints = signatures.get_type_hints(f)
    other = shared['fresh_fn2']
    cfg2 = fdl.Config(other, 'only')
    return ('first_config', C.canon(cfg.__arguments__), C.canon(cfg2.__arguments__), str(sig),
            sorted(hints), str(signatures.get_signature(other)), _seqs([cfg, cfg2]))

  def method_config():
    # a bound method (even k) or the plain function it wraps with an explicit self (odd k), of a
    # class shared by the threads of the scenario: first-time signature lookups of both
    cls = shared['meth_cls']
    if k % 2 == 0:
      cfg = fdl.Config(cls(k).scale, 2, offset=k)
    else:
      cfg = fdl.Config(cls.scale, f'self{k}', 2, offset=k)
    cfg2 = fdl.Config(cls.make, k)
    sig = str(signatures.get_signature(cfg.__fn_or_cls__))
    return ('method_config', C.canon(cfg.__arguments__), sig, C.canon(fdl.build(cfg)), C.canon(fdl.build(cfg2)),
            _seqs([cfg, cfg2]))

  def failing_build():
    exc_cls = shared['exc_classes'][k % len(shared['exc_classes'])]

    def boom(x=None):
      raise exc_cls(f'boom{k}')

    cfg = fdl.Config(things.f2, x=1, child=[fdl.Config(boom, x=2)])
    try:
      fdl.build(cfg)
      res = 'returned'
    except Exception as e:  # pylint: disable=broad-except
      res = (isinstance(e, exc_cls), type(e).__name__, str(e).startswith(f'boom{k}'), '.child[0]' in str(e))
    after = fdl.build(fdl.Config(things.ident, x=k))
    return ('failing_build', res, C.canon(after))

  def select_set():
    cfg = fdl.Config(things.h1, a=fdl.Config(things.Base, x=1), b=[fdl.Config(things.LeafCls, x=2)],
                     c=fdl.Config(things.Other, x=3))
    from fiddle._src import selectors
    selectors.select(cfg, things.Base).set(y=f'set{k}')
    got = sorted(map(str, selectors.select(cfg, things.Base).get('y')))
    return ('select_set', C.canon(cfg), got, _seqs([cfg]))

  return {'build': build, 'build_list': build_list, 'edits': edits, 'tags': tags,
          'deepcopy_eq': deepcopy_eq, 'json': json_, 'first_config': first_config,
          'failing_build': failing_build, 'select_set': select_set, 'method_config': method_config}[p]


def make_shared(case_id):
  """Objects that the threads of one scenario share (created fresh for every run)."""

  def fresh_fn(alpha: int, beta: 'str' = 'b', *rest, gamma=None):
    return vuni.record('fresh_fn', {'alpha': alpha, 'beta': beta, 'gamma': gamma}, rest)

  def fresh_fn2(only: float, /, other=3):
    return vuni.record('fresh_fn2', {'only': only, 'other': other})

  class ScenarioError(ValueError):
    pass

  class ScenarioError2(KeyError):
    pass

  return {'fresh_fn': fresh_fn, 'fresh_fn2': fresh_fn2, 'exc_classes': [ScenarioError, ScenarioError2],
          'meth_cls': things.make_method_class()}


def _strip_seq(res):
  """Result without the trailing sequence-id list."""
  if isinstance(res, tuple) and res and isinstance(res[-1], list):
    return res[:-1], res[-1]
  return res, []


def _observe():
  # runs inside the monitoring callback, possibly while the thread-local state object of this
  # very thread is being initialised: must never raise into the monitored code
  try:
    return (building._state.__dict__.get('in_build', False),  # pylint: disable=protected-access
            H._tracking_state.__dict__.get('enabled', True))  # pylint: disable=protected-access
  except Exception:  # pylint: disable=broad-except
    return None


def check(case):
  out = Outcome()
  n = len(case['progs'])
  # solo runs (reference), each with fresh shared objects of its own
  solo = []
  for spec in case['progs']:
    shared = make_shared(0)
    st_ = sched.run_solo(make_program(spec, shared), trace=True)
    if st_.error is not None:
      out.add('solo-run-raises', exc_kind(st_.error), fiddle_frame(st_.error), spec['p'], repr(st_.error)[:300])
      return out
    solo.append(st_)
  # schedule
  preempt = {}
  if 'single' in case:
    k = case['single']
    if k > solo[0].steps:
      out.skipped = 'beyond-last-step'
      return out
    preempt[(0, k)] = 1
  elif 'line' in case:
    first, last = {}, {}
    for i, tr in enumerate(solo[0].trace):
      first.setdefault((tr[0], tr[1]), i + 1)
      last[(tr[0], tr[1])] = i + 1
    keys = list(first)
    if case['line'] >= len(keys):
      out.skipped = 'beyond-last-step'
      return out
    key = keys[case['line']]
    if case['occ'] == 'last' and last[key] == first[key]:
      out.skipped = 'beyond-last-step'
      return out
    preempt[(0, (first if case['occ'] == 'first' else last)[key])] = 1
    out.cls('line_sweep')
  elif 'double' in case:
    def cands(st_):
      if case['cand'] == 'tracking':
        return [i + 1 for i, tr in enumerate(st_.trace) if tr[0] == 'history.py' and 'tracking' in tr[2]]
      return [i + 1 for i, tr in enumerate(st_.trace)
              if tr[0] == 'history.py' and tr[2] != '_stacktrace_location_provider']
    c0, c1 = cands(solo[0]), cands(solo[1])
    i, j = case['double']
    if i >= len(c0) or j >= len(c1):
      out.skipped = 'beyond-last-step'
      return out
    preempt[(0, c0[i])] = 1
    preempt[(1, c1[j])] = 0
    out.cls('double_preemption')
  else:
    for pr in case['pre']:
      t, to = pr['t'], pr['to']
      if t == to or not solo[t].steps:
        continue
      step = max(1, min(solo[t].steps, int(pr['f'] * solo[t].steps) + 1))
      if pr['snap']:
        cands = [i + 1 for i, tr in enumerate(solo[t].trace) if tr[0] == pr['snap']]
        if cands:
          step = min(cands, key=lambda c: abs(c - step))
      preempt[(t, step)] = to
  del NONMONO[:]
  shared = make_shared(1)
  sc = sched.Scenario([make_program(spec, shared) for spec in case['progs']], preempt=preempt,
                      observe=_observe, timeout=30.0).run()
  if sc.stuck:
    raise RuntimeError('scheduler stuck (harness error)')
  in_shared = any(sw[2] in SHARED_MODULES for sw in sc.switches)
  in_build_or_suspend = any(sw[6] and (sw[6][0] or not sw[6][1]) for sw in sc.switches)
  if in_shared:
    out.cls('preempted_in_shared_module')
  if in_build_or_suspend:
    out.cls('preempted_in_build_or_suspend')
  if sc.switches:
    out.cls('switched')
  out.cls('n%d' % n)
  out.nontrivial = bool(sc.switches) and (in_shared or in_build_or_suspend)
  progs = '+'.join(s['p'] for s in case['progs'])
  all_seq = []
  for i, (st_, ref) in enumerate(zip(sc.threads, solo)):
    feat = case['progs'][i]['p']
    if st_.error is not None:
      out.add('thread-raised-under-interleaving', exc_kind(st_.error), fiddle_frame(st_.error), feat,
              f'{progs} preempt={preempt} switches={sc.switches[:4]}: {st_.error!r}'[:900])
      return out
    got, gseq = _strip_seq(st_.result)
    want, _ = _strip_seq(ref.result)
    if got != want:
      out.add('thread-result-differs-from-solo-run', 'mismatch', '', feat,
              f'{progs} preempt={preempt} switches={sc.switches[:4]}\ngot  {str(got)[:500]}\nwant {str(want)[:500]}')
      return out
    all_seq.append(gseq)
  if NONMONO:
    out.add('sequence-ids-not-increasing-within-thread', 'mismatch', '', progs, f'{NONMONO[:2]} preempt={preempt}')
  flat = [s for seq in all_seq for s in set(seq)]
  if len(flat) != len(set(flat)):
    out.add('sequence-ids-not-unique-across-threads', 'mismatch', '', progs, f'preempt={preempt} switches={sc.switches[:4]}')
  return out
