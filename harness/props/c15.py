"""C15 — select() hits exactly the matching nodes; replace keeps the rest intact."""

import collections
import types
import copy

import fiddle as fdl
from fiddle._src import selectors
from hypothesis import strategies as st

from harness import canon as C
from harness.gen import dags, leaves, recipes
from harness.runner import Outcome, exc_kind, fiddle_frame
from harness.vuni import tags as vtags
from harness.vuni import things

RULE = (
    'Generated: DAG recipes mixing functions and the class hierarchy Base<-Mid<-LeafCls / Other '
    'under Config and Partial, with matching nodes shared, nested inside other matching nodes '
    'and inside lists/tuples/dicts/named tuples; a target F, match_subclasses, buildable_type in '
    '{Buildable, Config, Partial}; an operation in {iterate, set, get, replace(deepcopy=False), '
    'replace(deepcopy=True), tag iteration}; replacement v in {leaf, list, untagged Config, an '
    'equal copy of a matching node}. Oracle: independent graph walk gives the expected identity '
    'set; iteration yields exactly it, each once; set/get touch exactly those nodes; after replace '
    'every reference to a matching node holds v (identity when deepcopy=False) and every '
    'non-matching Buildable is the same object with its other arguments, recursively from the '
    'root; tag-selection iteration yields value, else default, else NO_VALUE. Non-trivial: a '
    'matching node is shared or nested inside another matching node.'
)
RULE += (' ' + 'Also generated: op reuse -- the same selection object is iterated, the configuration is edited (matching node added and/or removed), and the object is iterated and .set() again; it must reflect the current matches (NodeSelection is documented as declarative).')
RULE += (' ' + 'Rounds 3-5: tagged unset positional-only parameters with defaults; bound classmethods as callables and selection targets.')
ASSUMPTIONS = [
    'replace on a selection that matches the root must raise ValueError (documented)',
    'containers may be rebuilt by replace; only Buildables are required to keep identity',
]
BUDGET = {'quick': 16 * 500, 'thorough': 16 * 12000}
FLOORS = {'match_shared_or_nested': 0.03, 'op_replace': 0.162, 'filter_type': 0.2}

_FS = ['things:Base', 'things:Mid', 'things:LeafCls', 'things:Other', 'things:f2', 'things:BaseCM.make']
_BT = {'Buildable': fdl.Buildable, 'Config': fdl.Config, 'Partial': fdl.Partial}


@st.composite
def strategy_(draw, tier):
  recipe = draw(dags.dag(
      max_nodes=10, min_nodes=3, tags=True, bts=('Config', 'Config', 'Partial'),
      kinds=['B', 'B', 'B', 'B', 'list', 'tuple', 'dict', 'nt', 'Bpo',
             # further node kinds of the shared generator that this check's oracle handles (each once)
             'TV', 'ddict', 'mdict', 'kdict', 'set', 'fset', 'ltuple', 'ntuple', 'Bpos', 'Bann', 'Bmut', 'Bmut1', 'Bmutnest', 'Bpo3', 'Bdc', 'Bempty', 'AFP', 'odict', 'dcinst', 'Bclash', 'Bdictcfg'],
      fns=['things:f2', 'things:Base', 'things:Mid', 'things:LeafCls', 'things:Other', 'things:h1',
           'things:BaseCM.make', 'things:SubCM.make'],
      root_kinds=['B'], p_alias=0.8, allow_copyof=draw(st.booleans())))
  T = draw(st.sampled_from(['TagA', 'TagB', 'TagC', 'TagX']))
  if draw(st.floats(0, 1)) < 0.25:
    # a tag on a positional-only parameter (keyed by index) that has a default and no value
    root = recipe['nodes'].pop()
    i = len(recipe['nodes'])
    npos = draw(st.integers(0, 1))
    recipe['nodes'].append({'k': 'B', 'bt': 'Config', 'fn': {'kind': 'sym', 'name': 'things:po2'},
                            'pos': [{'leaf': 'set-p0'}][:npos], 'kw': {}, 'edits': [],
                            'tags': [[draw(st.integers(npos, 1)), T]]})
    names = dags.SIMPLE[root['fn']['name']][1]
    root['kw'][names[-1]] = i
    recipe['nodes'].append(root)
    recipe['root'] = i + 1
  return {
      'recipe': recipe, 'F': draw(st.sampled_from(_FS)), 'match_subclasses': draw(st.booleans()),
      'bt': draw(st.sampled_from(['Buildable', 'Buildable', 'Config', 'Partial'])),
      'op': draw(st.sampled_from(['iter', 'set', 'get', 'replace', 'replace', 'replace_deepcopy', 'tag_iter', 'reuse'])),
      'reuse_edit': draw(st.sampled_from(['add', 'remove', 'both'])), 'ri': draw(st.integers(0, 30)),
      'v': draw(st.sampled_from(['leaf', 'list', 'config', 'copy_of_match'])),
      'vleaf': draw(leaves.leaf('plain')), 'T': T,
  }


def strategy(tier):
  return strategy_(tier)


def uniq_buildables(root):
  seen, out = set(), []
  for _, v in C.walk(root):
    if isinstance(v, fdl.Buildable) and id(v) not in seen:
      seen.add(id(v))
      out.append(v)
  return out


def check(case):
  out = Outcome()
  root, _ = dags.build(case['recipe'])
  F = things.resolve_symbol(case['F'])
  ms = case['match_subclasses']
  bt = _BT[case['bt']]

  def matches(b):
    if not isinstance(b, bt):
      return False
    fn = b.__fn_or_cls__
    if fn is F or (isinstance(F, types.MethodType) and fn == F):
      # a bound (class)method is a new object at every attribute access: equal, not identical
      return True
    return bool(ms and isinstance(F, type) and isinstance(fn, type) and issubclass(fn, F))

  bs = uniq_buildables(root)
  expected = [b for b in bs if matches(b)]
  exp_ids = {id(b) for b in expected}
  idn = C.identity_nodes(root)
  shared = any(len(idn[id(b)][1]) > 1 for b in expected)
  nested = any(any(id(v) in exp_ids and v is not b for _, v in C.walk(b)) for b in expected)
  if shared or nested:
    out.cls('match_shared_or_nested')
  if case['bt'] != 'Buildable':
    out.cls('filter_type')
  op = case['op']
  out.cls('op_' + ('replace' if op.startswith('replace') else op))
  out.nontrivial = bool(shared or nested)
  feat = f"{op}:{case['bt']}:{'sub' if ms else 'exact'}"

  if op == 'tag_iter':
    T = vtags.ALL[case['T']]
    want = collections.Counter()
    for b in bs:
      info = recipes.ParamInfo(b.__fn_or_cls__)
      for k, ts in b.__argument_tags__.items():
        if any(issubclass(t, T) for t in ts):
          if k in b.__arguments__:
            v = b.__arguments__[k]
          elif isinstance(k, str) and k in info.default:
            v = info.default[k]
          elif isinstance(k, int) and k < info.npos and info.positional[k] in info.default:
            v = info.default[info.positional[k]]   # positional-only parameters are keyed by index
          else:
            v = fdl.NO_VALUE
          want[_vkey(v)] += 1
    try:
      got = collections.Counter(_vkey(v) for v in selectors.select(root, tag=T))
    except Exception as e:  # pylint: disable=broad-except
      out.add('tag-iteration-raises', exc_kind(e), fiddle_frame(e), feat, repr(e)[:300])
      return out
    if got != want:
      out.add('tag-iteration-wrong', 'mismatch', '', 'tag_iter', f'got {dict(got)} want {dict(want)}'[:600])
    return out

  try:
    sel = selectors.select(root, F, match_subclasses=ms, buildable_type=bt, check_nonempty=False)
  except Exception as e:  # pylint: disable=broad-except
    out.add('select-raises', exc_kind(e), fiddle_frame(e), feat, repr(e)[:300])
    return out
  before = C.canon(root)
  try:
    got = list(sel)
  except Exception as e:  # pylint: disable=broad-except
    out.add('iteration-raises', exc_kind(e), fiddle_frame(e), feat, repr(e)[:300])
    return out
  got_ids = collections.Counter(id(b) for b in got)
  if set(got_ids) != exp_ids or any(c != 1 for c in got_ids.values()):
    out.add('iteration-wrong-set', 'mismatch', '', feat,
            f'yielded {len(got)} (dups {sum(c > 1 for c in got_ids.values())}), expected {len(expected)}; cfg={root!r}'[:900])
    return out
  if C.canon(root) != before:
    out.add('iteration-modified-config', 'mismatch', '', feat, '')
    return out
  if op == 'iter':
    return out
  if op == 'reuse':
    # the selection is declarative (class docstring): after the configuration changes, the SAME
    # selection object yields what matches now
    edited = []
    if case.get('reuse_edit') in ('remove', 'both'):
      holders = [(b, k) for b in bs for k, a in b.__arguments__.items()
                 if isinstance(k, str) and isinstance(a, fdl.Buildable) and id(a) in exp_ids]
      if holders:
        b, k = holders[case['ri'] % len(holders)]
        delattr(b, k)
        edited.append('remove')
    if case.get('reuse_edit') in ('add', 'both'):
      live = uniq_buildables(root)
      hosts = [b for b in live if b.__fn_or_cls__ in (things.f2, things.Base, things.Mid, things.LeafCls, things.Other)]
      if hosts:
        host = hosts[case['ri'] % len(hosts)]
        newb = (fdl.Partial if case['bt'] == 'Partial' else fdl.Config)(F, x='added-later')
        host.child = newb
        edited.append('add')
    if not edited:
      return out
    out.cls('reuse_edited')
    bs2 = uniq_buildables(root)
    exp2 = {id(b) for b in bs2 if matches(b)}
    try:
      got2 = collections.Counter(id(b) for b in sel)
    except Exception as e:  # pylint: disable=broad-except
      out.add('iteration-raises', exc_kind(e), fiddle_frame(e), feat, repr(e)[:300])
      return out
    if set(got2) != exp2 or any(c != 1 for c in got2.values()):
      out.add('reused-selection-stale', 'mismatch', '', 'reuse:' + '+'.join(edited),
              f'yielded {len(got2)} nodes, {len(exp2)} match now; cfg={root!r}'[:900])
      return out
    val = ['set-later']
    try:
      sel.set(y=val)
    except Exception as e:  # pylint: disable=broad-except
      out.add('set-raises', exc_kind(e), fiddle_frame(e), feat, repr(e)[:300])
      return out
    for b in bs2:
      if (b.__arguments__.get('y') is val) != (id(b) in exp2):
        out.add('reused-selection-set-wrong-nodes', 'mismatch', '', 'reuse:' + '+'.join(edited), repr(b)[:300])
        return out
    return out

  snap = {id(b): (b, dict(b.__arguments__)) for b in bs}
  if op == 'set':
    val = ['set-value']
    try:
      sel.set(y=val)
    except Exception as e:  # pylint: disable=broad-except
      out.add('set-raises', exc_kind(e), fiddle_frame(e), feat, repr(e)[:300])
      return out
    for b, old in snap.values():
      if id(b) in exp_ids:
        if b.__arguments__.get('y') is not val:
          out.add('set-missed-matching-node', 'mismatch', '', feat, repr(b)[:300])
          return out
        rest_old = {k: v for k, v in old.items() if k != 'y'}
        rest_new = {k: v for k, v in b.__arguments__.items() if k != 'y'}
      else:
        rest_old, rest_new = old, dict(b.__arguments__)
      if set(rest_old) != set(rest_new) or any(rest_old[k] is not rest_new[k] for k in rest_old):
        out.add('set-changed-other-arguments', 'mismatch', '', feat, repr(b)[:300])
        return out
    return out
  if op == 'get':
    want = collections.Counter()
    ok = True
    for b in expected:
      try:
        want[_vkey(getattr(b, 'y'))] += 1
      except Exception:  # pylint: disable=broad-except
        ok = False
    if ok:
      gotv = collections.Counter(_vkey(v) for v in sel.get('y'))
      if gotv != want:
        out.add('get-wrong', 'mismatch', '', feat, f'{dict(gotv)} want {dict(want)}'[:500])
    return out

  # replace
  deep = op == 'replace_deepcopy'
  if case['v'] == 'leaf':
    v = leaves.dec(case['vleaf'])
  elif case['v'] == 'list':
    v = ['replacement']
  elif case['v'] == 'copy_of_match' and expected:
    v = copy.deepcopy(expected[0])
    out.cls('v_equals_a_match')
  else:
    v = fdl.Config(things.ident, x='replacement')
  root_matches = matches(root)
  try:
    sel.replace(v, deepcopy=deep)
    raised = None
  except Exception as e:  # pylint: disable=broad-except
    raised = e
  if root_matches:
    if not isinstance(raised, ValueError):
      out.add('replace-on-root-match-not-rejected', exc_kind(raised) if raised else 'returned', '', feat, '')
    elif C.canon(root) != before:
      out.add('rejected-replace-modified-config', 'mismatch', '', feat, '')
    return out
  if raised is not None:
    out.add('replace-raises', exc_kind(raised), fiddle_frame(raised), feat, f'{raised!r} cfg={root!r}'[:800])
    return out
  vterm = C.canon(v)
  problems = []
  seen = set()

  def expect(ov, nv, path):
    if problems:
      return
    if isinstance(ov, fdl.Buildable) and id(ov) in exp_ids:
      if deep:
        if (nv is v and not C.is_internable(v)) or C.canon(nv) != vterm:
          problems.append(('reference-to-match-not-a-deep-copy-of-v', path))
      elif nv is not v:
        problems.append(('reference-to-match-not-replaced-by-v', path))
      return
    if isinstance(ov, fdl.Buildable):
      if nv is not ov:
        problems.append(('non-matching-buildable-lost-identity', path))
        return
      if id(ov) in seen:
        return
      seen.add(id(ov))
      old_args = snap[id(ov)][1]
      if set(old_args) != set(ov.__arguments__):
        problems.append(('non-matching-buildable-argument-set-changed', path))
        return
      for k, oc in old_args.items():
        expect(oc, ov.__arguments__[k], path + (k,))
      return
    if C.is_namedtuple(ov) or isinstance(ov, (list, tuple)):
      if type(nv) is not type(ov) or len(nv) != len(ov):
        problems.append(('container-shape-changed', path))
        return
      for i, (a, b) in enumerate(zip(ov, nv)):
        expect(a, b, path + (i,))
      return
    if isinstance(ov, dict):
      if type(nv) is not type(ov) or list(nv) != list(ov):
        problems.append(('container-shape-changed', path))
        return
      for k in ov:
        expect(ov[k], nv[k], path + (k,))
      return
    if nv is not ov and C.canon(nv) != C.canon(ov):
      problems.append(('leaf-changed', path))

  # old top-level view: root is the same object, compare against the snapshot
  expect(root, root, ())
  if problems:
    out.add('replace-' + problems[0][0], 'mismatch', '', feat + (':v=match' if case['v'] == 'copy_of_match' else ''),
            f'at {problems[0][1]}; cfg={root!r}'[:900])
  return out


def _vkey(v):
  if C.is_leaf(v) or C.is_symbol(v):
    return repr(C.canon(v))
  return ('id', id(v))
