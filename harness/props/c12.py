"""C12 — generated Python code reproduces the configuration."""

import enum
import ast
import cmath
import hashlib
import importlib.util
import linecache
import math
import os
import sys

import fiddle as fdl
from fiddle._src.codegen import new_codegen
from fiddle._src.codegen import py_val_to_cst_converter
from fiddle._src.codegen.auto_config import experimental_top_level_api
from hypothesis import strategies as st
import libcst as cst

from harness import canon as C
from harness.gen import dags, leaves
from harness.runner import Outcome, exc_kind, fiddle_frame
import harness.vuni as vuni
from harness.vuni import things

RULE = (
    'Generated (two case kinds). configs: DAG recipes over importable callables with Config, '
    'Partial and ArgFactory-inside-Partial nodes, positional and keyword arguments, tags on '
    'arguments that have values, shared nodes and shared containers, enum/class/function leaves, '
    'special floats, complex, bytes, huge ints, tuples as dict keys; an option point: generator '
    'in {new_codegen, auto_config_codegen}, sub_fixtures = generated subset of the Buildable '
    'nodes, max_expression_complexity in {None, 0..3}, include_history in {False, True}. Oracle: '
    'the generator raises (rejection) or returns text that compiles; the module is written to a '
    'scratch file, imported, and config_fixture() / config_fixture.as_buildable() must have the '
    'canonical form (callables, arguments, tags, sharing) of the input; text that does not run '
    'is a violation, not a rejection. values: bare Python values for convert_py_val_to_cst; the '
    'emitted expression must evaluate to a value of the same type and equal value (nan ~ nan, '
    'sign of zero kept). Non-trivial: configuration has sharing and tags and a non-default '
    'option point.'
)
RULE += (' ' + 'Also generated: members of a nested enum (Outer.Mode) and of an unrelated top-level enum with the same name and members; shared set nodes.')
RULE += (' ' + 'Round 7: multi-line strings with carriage returns; a sub-fixture named like an imported module.')
RULE += (' ' + 'Round 6: members of enums with an int / str mix-in (IntEnum, (str, Enum)).')
RULE += (' ' + 'Rounds 3-5: complex unshared node inside a sub-fixture; nested sub-fixtures in every dict order; same-named modules (harness.vuni.fractions vs fractions); named tuples; parameters/classes whose names become Python keywords. The listed sub-fixture finding applies only when sharing crosses a sub-fixture boundary.')
RULE += (' ' + 'Round 8: one tuple object holding an otherwise unshared Buildable or list, referenced from two parents under the same argument name (sharing must survive the generated code).')
ASSUMPTIONS = [
    'tagged arguments all have values (property precondition)',
    'formatting of the emitted text is not judged',
]
BUDGET = {'quick': 16 * 500, 'thorough': 16 * 8000}
FLOORS = {'kind_config': 0.306, 'sharing': 0.203, 'sub_fixtures': 0.15}
TIME_LIMIT = {'quick': 900, 'thorough': 6 * 3600}

SCRATCH = os.path.join('/dev/shm', f'verif_c12_{os.getuid()}')

_value = st.recursive(
    st.one_of(st.integers(), st.integers(-5, 5), st.booleans(), st.none(), st.floats(), st.just(-0.0),
              st.sampled_from([math.inf, -math.inf, math.nan, 1e308, 5e-324]),
              st.complex_numbers(allow_nan=False, allow_infinity=False, max_magnitude=1e9),
              st.sampled_from([complex(0, 1), complex(-0.0, 2), complex(1, -0.0), complex(0, -3), complex(-1.5, 2)]),
              st.text(max_size=6), st.sampled_from(['\ud800', "q'\"", '\n', '\\']), st.binary(max_size=6),
              st.just(Ellipsis), st.sampled_from(list(things.Color)),
              st.sampled_from([things.f2, things.Base, int, dict]),
              st.sampled_from([slice(None), slice(1, 2, 3)])),
    lambda c: st.one_of(st.lists(c, max_size=3), st.lists(c, max_size=3).map(tuple),
                        st.dictionaries(st.one_of(st.integers(0, 5), st.text(max_size=3), st.tuples(st.integers(0, 2))), c, max_size=2),
                        st.tuples(c, c).map(lambda t: things.Pair(*t))),
    max_leaves=6)


@st.composite
def strategy_(draw, tier):
  if draw(st.floats(0, 1)) < 0.3:
    v = draw(_value)
    return {'kind': 'value', 'v': repr_token(v)}
  if draw(st.floats(0, 1)) < 0.12:
    # sub-fixture scenario: P is shared between the sub-fixture S and the outside (becomes a
    # parameter), X is shared inside S only (becomes a local variable); equal callables make
    # their preferred names collide
    fnp = draw(st.sampled_from(['things:f2', 'things:Base']))
    fnx = draw(st.sampled_from(['things:f2', 'things:Base', fnp]))
    mk = lambda fn, uid, **kw: {'k': 'B', 'bt': 'Config', 'fn': {'kind': 'sym', 'name': fn}, 'pos': [],
                                'kw': dict({'x': {'leaf': uid}}, **kw), 'edits': []}
    nodes = [mk(fnp, 'uidP'), mk(fnx, 'uidX')]
    slots = draw(st.permutations(['b', 'c', 'd', 'e']))
    if draw(st.sampled_from(range(3))) == 0:
      # nested sub-fixtures: P is shared by the inner sub-fixtures L and R (declared in the
      # enclosing sub-fixture G, handed down as a parameter), X is shared inside L only
      h = lambda uid, **kw: {'k': 'B', 'bt': 'Config', 'fn': {'kind': 'sym', 'name': 'things:h1'}, 'pos': [],
                             'kw': dict({'a': {'leaf': uid}}, **kw), 'edits': []}
      if draw(st.booleans()):
        # variant without P: all sharing stays inside the inner sub-fixture L (inside G)
        # X is shared by two ordinary nodes M1, M2 inside L
        nodes = [nodes[1], mk('things:Base', 'uidM1', child=0), mk('things:Base', 'uidM2', child=0)]
        nodes.append(h('uidL', **{slots[1]: 1, slots[2]: 2}))
        nodes.append(h('uidG', b=3))
        nodes.append(h('uidT', b=4))
        return {'kind': 'config', 'recipe': {'nodes': nodes, 'root': 5}, 'scenario': 'subfix',
                'S': list(draw(st.permutations([4, 3]))),
                'gen': draw(st.sampled_from(['new_codegen', 'auto_config_codegen'])),
                'subs': ['S'], 'mec': draw(st.sampled_from([None, None, 1, 3])), 'history': False}
      nodes.append(h('uidL', **{slots[0]: 0, slots[1]: 1, slots[2]: 1}))
      nodes.append(h('uidR', **{slots[0]: 0}))
      nodes.append(h('uidG', b=2, c=3))
      nodes.append(h('uidT', b=4))
      return {'kind': 'config', 'recipe': {'nodes': nodes, 'root': 5}, 'scenario': 'subfix',
              'S': list(draw(st.permutations([4, 2, 3]))),   # also inner sub-fixtures listed before the outer one
              'gen': draw(st.sampled_from(['new_codegen', 'auto_config_codegen'])),
              'subs': ['S'], 'mec': draw(st.sampled_from([None, None, 1, 3])), 'history': False}
    skw = {slots[0]: 0, slots[1]: 1, slots[2]: 1}
    if draw(st.booleans()):
      # an unshared, more complex node of X's callable inside S (extracted by the complexity pass)
      nodes.append({'k': 'list', 'items': [{'leaf': i} for i in range(draw(st.integers(1, 4)))]})
      nodes.append(mk(fnx, 'uidBIG', y=2))
      skw[slots[3]] = 3
    si = len(nodes)
    nodes.append({'k': 'B', 'bt': 'Config', 'fn': {'kind': 'sym', 'name': 'things:h1'}, 'pos': [],
                  'kw': dict({'a': {'leaf': 'uidS'}}, **skw), 'edits': []})
    rslots = draw(st.permutations(['b', 'c', 'd']))
    rkw = {'a': {'leaf': 'uidR'}, rslots[0]: si}
    if draw(st.floats(0, 1)) < 0.7:
      rkw[rslots[1]] = 0       # P is shared between S and the outside
    nodes.append({'k': 'B', 'bt': 'Config', 'fn': {'kind': 'sym', 'name': 'things:h1'}, 'pos': [],
                  'kw': rkw, 'edits': []})
    return {'kind': 'config', 'recipe': {'nodes': nodes, 'root': si + 1}, 'scenario': 'subfix', 'S': si,
            'gen': draw(st.sampled_from(['new_codegen', 'auto_config_codegen'])),
            'subs': ['S'], 'mec': draw(st.sampled_from([None, None, 1, 2, 3, 4, 5])), 'history': False}
  if draw(st.floats(0, 1)) < 0.08:
    # a leaf symbol from a module that is referenced nowhere else, next to an extracted variable
    # whose preferred name is that module's name (**kwargs field named like the module)
    modname, sym = draw(st.sampled_from([('boxes', 'boxes:Box'), ('flagsmod', 'flagsmod:base_a'), ('flagsmod', 'flagsmod:set_y')]))
    nodes = [{'k': 'B', 'bt': 'Config', 'fn': {'kind': 'sym', 'name': 'things:f2'}, 'pos': [],
              'kw': {'x': {'leaf': 'uid0'}}, 'edits': []}]
    kw = {modname: 0, 'k': 0 if draw(st.booleans()) else {'leaf': 1}, 'z0': {'leaf': {'$sym': sym}}}
    nodes.append({'k': 'B', 'bt': 'Config', 'fn': {'kind': 'sym', 'name': 'things:g3'},
                  'pos': [{'leaf': 'uidR'}, 0], 'kw': kw, 'edits': []})
    return {'kind': 'config', 'recipe': {'nodes': nodes, 'root': 1}, 'scenario': 'modshadow',
            'gen': draw(st.sampled_from(['new_codegen', 'auto_config_codegen'])),
            'subs': [], 'mec': draw(st.sampled_from([None, None, 0, 1, 2])), 'history': False}
  if draw(st.floats(0, 1)) < 0.05:
    # callables (and leaf symbols) from two modules with the same last name: the package
    # sub-module harness.vuni.fractions and the top-level module fractions
    mk = lambda fn, **kw: {'k': 'B', 'bt': 'Config', 'fn': {'kind': 'sym', 'name': fn}, 'pos': [], 'kw': kw, 'edits': []}
    parts = draw(st.permutations([mk('fractions:frac', x={'leaf': 1}),
                                  mk('std.fractions:Fraction', numerator={'leaf': 1}, denominator={'leaf': 2}),
                                  mk('things:f2', x={'leaf': {'$sym': 'fractions:frac'}}, y={'leaf': {'$sym': 'std.fractions:Fraction'}})]))
    nodes = list(parts[:draw(st.integers(2, 3))])
    slots = ['b', 'c', 'd']
    nodes.append({'k': 'B', 'bt': 'Config', 'fn': {'kind': 'sym', 'name': 'things:h1'}, 'pos': [],
                  'kw': dict({'a': {'leaf': 'uidR'}}, **{slots[i]: i for i in range(len(nodes))}), 'edits': []})
    return {'kind': 'config', 'recipe': {'nodes': nodes, 'root': len(nodes) - 1}, 'scenario': 'samemod',
            'gen': draw(st.sampled_from(['new_codegen', 'auto_config_codegen'])),
            'subs': [], 'mec': draw(st.sampled_from([None, None, 1])), 'history': False}
  if draw(st.sampled_from(range(16))) == 0:
    # round 8: one tuple object holding an otherwise unshared Buildable (or list), referenced from
    # two parents under the same argument name
    mk = lambda fn, **kw: {'k': 'B', 'bt': 'Config', 'fn': {'kind': 'sym', 'name': fn}, 'pos': [], 'kw': kw, 'edits': []}
    if draw(st.booleans()):
      nodes = [mk('things:Base', x={'leaf': 'uidI'})]
    else:
      nodes = [{'k': 'list', 'items': [{'leaf': 1}, {'leaf': 2}]}]
    nodes.append({'k': 'tuple', 'items': [0, {'leaf': 1}]})
    slot = draw(st.sampled_from(['child', 'y']))
    nodes.append(mk('things:f2', x={'leaf': 'uidL'}, **{slot: 1}))
    nodes.append(mk(draw(st.sampled_from(['things:Base', 'things:f2'])), x={'leaf': 'uidR'}, **{slot: 1}))
    nodes.append(mk('things:h1', a={'leaf': 'uidT'}, b=2, c=3))
    return {'kind': 'config', 'recipe': {'nodes': nodes, 'root': 4}, 'scenario': 'sharedtuple',
            'gen': draw(st.sampled_from(['new_codegen', 'auto_config_codegen'])),
            'subs': [], 'mec': draw(st.sampled_from([None, None, 5, 8, 12])), 'history': False}
  recipe = draw(dags.dag(
      max_nodes=8, min_nodes=2, leaf_profile='any_enum', bts=('Config', 'Config', 'Partial'),
      kinds=['B', 'B', 'B', 'list', 'tuple', 'dict', 'kdict', 'Bpos', 'AFP', 'set', 'nt',
             # further node kinds of the shared generator that this check's oracle handles (each once)
             'box', 'mdict', 'fset', 'ltuple', 'ntuple', 'Bmut', 'Bmut1', 'Bmutnest', 'Bpo', 'Bpo3', 'Bdc', 'Bempty', 'holder', 'dcinst', 'Bclash',
             'ddict', 'odict', 'Bdictcfg'],
      fns=['things:f2', 'things:h1', 'things:Base', 'things:LeafCls', 'things:kwnames', 'things:Lambda'],
      root_kinds=['B'], p_alias=0.8, allow_copyof=False, tags=True))
  r = draw(st.floats(0, 1))
  for nd in recipe['nodes']:
    if 'tags' in nd:
      if r < 0.45:
        del nd['tags']          # tag-free configuration
      elif r < 0.92:
        seen_keys = set()       # at most one tag per argument
        nd['tags'] = [t for t in nd['tags'] if not (t[0] in seen_keys or seen_keys.add(t[0]))]
  subs = draw(st.lists(st.integers(0, 20), min_size=1, max_size=2, unique=True)) if draw(st.floats(0, 1)) < 0.6 else []
  return {'kind': 'config', 'recipe': recipe,
          'gen': draw(st.sampled_from(['new_codegen', 'auto_config_codegen'])),
          'subs': subs, 'mec': draw(st.sampled_from([None, None, 0, 1, 2, 3])),
          # now and then the first sub-fixture is named like a module the generated code imports
          # (it must be renamed or rejected, not emitted so that it shadows the import)
          'sub_alias': draw(st.sampled_from([None] * 6 + ['things', 'fdl', 'tags'])) if subs else None,
          'history': draw(st.booleans())}


def strategy(tier):
  return strategy_(tier)


# values are carried as a pickle-free token: hex of pickle would hide structure; use a tiny encoding
import base64
import pickle


def repr_token(v):
  return base64.b64encode(pickle.dumps(v)).decode()


def from_token(t):
  return pickle.loads(base64.b64decode(t))


def load_module(src, tag):
  d = os.path.join(SCRATCH, str(os.getpid()))
  os.makedirs(d, exist_ok=True)
  name = f'c12gen_{tag}_' + hashlib.sha1(src.encode()).hexdigest()[:16]
  path = os.path.join(d, name + '.py')
  with open(path, 'w') as f:
    f.write(src)
  spec = importlib.util.spec_from_file_location(name, path)
  mod = importlib.util.module_from_spec(spec)
  sys.modules[name] = mod
  try:
    spec.loader.exec_module(mod)
  except BaseException:
    unload(name, path)
    raise
  return mod, name, path


def unload(name, path):
  sys.modules.pop(name, None)
  linecache.cache.pop(path, None)
  try:
    os.remove(path)
  except OSError:
    pass


def _same_value(a, b):
  if type(a) is not type(b):
    return False
  if isinstance(a, float):
    return (math.isnan(a) and math.isnan(b)) or (a == b and math.copysign(1, a) == math.copysign(1, b))
  if isinstance(a, complex):
    return _same_value(a.real, b.real) and _same_value(a.imag, b.imag)
  if isinstance(a, (list, tuple)):
    return len(a) == len(b) and all(_same_value(x, y) for x, y in zip(a, b))
  if isinstance(a, dict):
    return len(a) == len(b) and all(_same_value(k1, k2) and _same_value(a[k1], b[k2]) for k1, k2 in zip(a, b))
  if isinstance(a, slice):
    return (a.start, a.stop, a.step) == (b.start, b.stop, b.step)
  return a == b


def _vfeature(v):
  fs = set()

  def rec(x):
    if isinstance(x, float) and (math.isnan(x) or math.isinf(x)):
      fs.add('nonfinite-float')
    elif isinstance(x, complex):
      fs.add('complex')
    elif isinstance(x, (list, tuple)):
      for e in x:
        rec(e)
    elif isinstance(x, dict):
      for k, e in x.items():
        rec(k)
        rec(e)
    else:
      fs.add(type(x).__name__)

  rec(v)
  pri = [f for f in ('nonfinite-float', 'complex') if f in fs]
  return ','.join(pri) if pri else 'other'


def check(case):
  out = Outcome()
  out.cls('kind_' + case['kind'])
  if case['kind'] == 'value':
    v = from_token(case['v'])
    out.nontrivial = isinstance(v, (list, tuple, dict)) or isinstance(v, (float, complex, bytes))
    feat = _vfeature(v)
    try:
      node = py_val_to_cst_converter.convert_py_val_to_cst(v)
      code = cst.Module(body=[]).code_for_node(node)
    except Exception as e:  # rejection
      out.cls('value_rejected')
      return out
    env = {'things': things, 'harness': __import__('harness'), 'builtins': __import__('builtins'),
           'math': math}
    try:
      import harness.vuni.things  # pylint: disable=unused-import,import-outside-toplevel
      got = eval(code, env)  # pylint: disable=eval-used
    except Exception as e:  # pylint: disable=broad-except
      out.add('emitted-expression-does-not-evaluate', exc_kind(e), '', feat, f'{v!r} -> {code!r}: {e!r}'[:400])
      return out
    if not _same_value(got, v):
      out.add('emitted-expression-evaluates-differently', 'mismatch', '', feat, f'{v!r} -> {code!r} -> {got!r}'[:400])
    return out

  root, objs = dags.build(case['recipe'])
  from fiddle._src import tagging
  for _, v in C.walk(root):
    if isinstance(v, fdl.Buildable):
      for k in [k for k, ts in v.__argument_tags__.items() if ts and k not in v.__arguments__]:
        tagging.clear_tags(v, k)   # precondition: tagged arguments all have values
  bs = []
  seen = set()
  for _, v in C.walk(root):
    if isinstance(v, fdl.Buildable) and id(v) not in seen and v is not root:
      seen.add(id(v))
      bs.append(v)
  sub_fixtures = None
  if case.get('scenario') == 'subfix':
    si = case.get('S', 2)
    sub_fixtures = {f'sub_fixture_{j}': objs[i] for j, i in enumerate(si if isinstance(si, list) else [si])}
    out.cls('scenario_subfix')
  elif case['subs'] and bs:
    sub_fixtures = {}
    for j, s in enumerate(case['subs']):
      b = bs[s % len(bs)]
      if not any(b is x for x in sub_fixtures.values()):
        sub_fixtures[case.get('sub_alias') if j == 0 and case.get('sub_alias') else f'sub_fixture_{j}'] = b
  idn = C.identity_nodes(root)
  sharing = any(len(ps) > 1 for _, ps in idn.values())
  has_tags = any(isinstance(v, fdl.Buildable) and any(v.__argument_tags__.values()) for _, v in C.walk(root))
  nondefault = bool(sub_fixtures) or case['mec'] is not None or case['history']
  if sharing:
    out.cls('sharing')
  if sub_fixtures:
    out.cls('sub_fixtures')
  if has_tags:
    out.cls('has_tags')
  out.cls('gen_' + case['gen'])
  out.nontrivial = sharing and has_tags and nondefault
  known = known_features(case['gen'], root, has_tags, sub_fixtures)
  if len(known) >= 2:
    # several listed known findings at once: the failure could not be attributed to one of them
    out.skipped = 'multiple-known-finding-features'
    return out
  if known:
    out.cls('known_feature')
  feat = _bucket_feature(case['gen'], root, has_tags, known)
  want = C.canon(root)
  kwargs = dict(sub_fixtures=sub_fixtures, max_expression_complexity=case['mec'], include_history=case['history'])
  try:
    if case['gen'] == 'new_codegen':
      code = new_codegen.new_codegen(root, **kwargs)
    else:
      code = experimental_top_level_api.auto_config_codegen(root, **kwargs)
  except Exception as e:  # rejection is allowed
    out.cls('rejected')
    return out
  if C.canon(root) != want:
    out.add('codegen-modified-input', 'mismatch', '', feat, '')
    return out
  try:
    compile(code, '<generated>', 'exec')
  except SyntaxError as e:
    if 'duplicate argument' in str(e) and sub_fixtures:
      feat = case['gen'] + ':sub-fixtures-with-shared-values:duplicate-parameter'
    out.add('emitted-code-does-not-compile', 'SyntaxError', '', feat, f'{e!r}\n{code}'[:2500])
    return out
  try:
    mod, name, path = load_module(code, case['gen'][:3])
  except Exception as e:  # pylint: disable=broad-except
    out.add('emitted-module-does-not-import', exc_kind(e), '', feat, f'{e!r}\n{code}'[:2500])
    return out
  try:
    vuni.reset_log()
    try:
      got = mod.config_fixture() if case['gen'] == 'new_codegen' else mod.config_fixture.as_buildable()
    except Exception as e:  # pylint: disable=broad-except
      out.add('emitted-fixture-raises', exc_kind(e), fiddle_frame(e), feat, f'{e!r}\n{code}'[:2500])
      return out
    gt = C.canon(got)
    if gt != want:
      kind = 'sharing-only' if C.canon(got, sharing=False) == C.canon(root, sharing=False) else (
          'tags-only' if C.canon(got, tags=False) == C.canon(root, tags=False) else 'values')
      out.add('emitted-code-reproduces-a-different-config', kind, '', feat,
              f'want {str(want)[:700]}\ngot  {str(gt)[:700]}\n{code}'[:4000])
  finally:
    unload(name, path)
  return out


def known_features(gen, root, has_tags, sub_fixtures):
  """Input features of the listed known findings that this case exhibits."""
  f = _cfeature(root, has_tags).split(',')
  out = []
  if 'symbol-in-dict-key' in f:
    out.append('symbol-in-dict-key')
  if gen == 'new_codegen' and has_tags:
    out.append('new_codegen:tags')
  if gen == 'auto_config_codegen' and 'multi-tag' in f:
    out.append('auto_config_codegen:multi-tag')
  if _shared_argfactory(root):
    out.append(gen + ':shared-argfactory')
  if gen == 'auto_config_codegen' and _tagged_argfactory_arg(root):
    out.append('auto_config_codegen:tagged-argfactory-argument')
  if any(isinstance(v, dict) and type(v) is not dict for _, v in C.walk(root)):
    # dict subclasses (defaultdict, OrderedDict) are emitted as plain dict displays
    out.append(gen + ':dict-subclass-value')
  if any(type(v).__name__ in ('DictConfig', 'NamespaceConfig') for _, v in C.walk(root)):
    # the experimental Config subclasses are emitted as calls their constructors do not accept
    out.append(gen + ':dictconfig-node')
  if any(C.is_namedtuple(v) for _, v in C.walk(root)):
    # named tuples are emitted as plain tuple displays
    out.append(gen + ':namedtuple-value')
  if any(isinstance(v, (set, frozenset)) and any(isinstance(e, enum.Enum) for e in v) for _, v in C.walk(root)):
    # enum members inside a set are emitted fully qualified without an import
    out.append(gen + ':enum-in-set')
  if sub_fixtures and _sharing_crosses_a_sub_fixture(root, sub_fixtures):
    # sub-fixture extraction does not handle values shared across a sub-fixture boundary
    out.append(gen + ':sub-fixtures-with-shared-values')
  return out


def _sharing_crosses_a_sub_fixture(root, sub_fixtures):
  """A shared object that is reachable both through a sub-fixture and without passing through it,
  or a sub-fixture that is itself referenced more than once.  (Sharing that stays entirely inside
  one sub-fixture, or entirely outside all of them, is handled correctly and is judged.)"""
  idn = C.identity_nodes(root)
  shared = {i for i, (_, ps) in idn.items() if len(ps) > 1}
  if not shared:
    return False
  subs = list(sub_fixtures.values())
  if any(id(s) in shared for s in subs):
    return True
  for s in subs:
    inside = {id(v) for _, v in C.walk(s)} - {id(s)}
    outside = set()
    stack = [root]
    while stack:
      x = stack.pop()
      if x is s or id(x) in outside:
        continue
      outside.add(id(x))
      stack.extend(c for _, c in C.children(x))
    if shared & inside & outside:
      return True
  return False


def _bucket_feature(gen, root, has_tags, known):
  if known:
    return known[0]
  f = _cfeature(root, has_tags).split(',')
  return gen + ':' + ','.join(x for x in f if x not in ('multi-tag',))


def _tagged_argfactory_arg(root):
  for _, v in C.walk(root):
    if isinstance(v, fdl.Buildable):
      for k, ts in v.__argument_tags__.items():
        if ts and isinstance(v.__arguments__.get(k), fdl.ArgFactory):
          return True
  return False


def _tagged_shared_value(root):
  idn = C.identity_nodes(root)
  for _, v in C.walk(root):
    if isinstance(v, fdl.Buildable):
      for k, ts in v.__argument_tags__.items():
        if ts and k in v.__arguments__:
          val = v.__arguments__[k]
          if not C.is_internable(val) and len(idn.get(id(val), (None, []))[1]) > 1:
            return True
  return False


def _shared_argfactory(root):
  idn = C.identity_nodes(root)
  return any(isinstance(o, fdl.ArgFactory) and len(ps) > 1 for o, ps in idn.values())


def _cfeature(root, has_tags):
  """Input features (known-finding classification and exclusion statistics)."""
  fs = set()
  for _, v in C.walk(root):
    if isinstance(v, fdl.ArgFactory):
      fs.add('argfactory')
    if isinstance(v, fdl.Buildable):
      if any(isinstance(k, int) for k in v.__arguments__):
        fs.add('positional')
      if any(len(ts) >= 2 for ts in v.__argument_tags__.values()):
        fs.add('multi-tag')
    if isinstance(v, dict) and any(_has_symbol_key(k) for k in v):
      fs.add('symbol-in-dict-key')
  if has_tags:
    fs.add('tags')
  return ','.join(sorted(fs)) or 'plain'


def _has_symbol_key(k):
  import enum
  if isinstance(k, enum.Enum) or C.is_symbol(k):
    return True
  if isinstance(k, tuple):
    return any(_has_symbol_key(e) for e in k)
  return False
