"""C01 — build(Config(f, ...)) calls f with exactly the configured arguments."""

import inspect

import fiddle as fdl
from hypothesis import strategies as st

from harness import canon as C
from harness import refmodel as R
from harness.gen import leaves, recipes
from harness.runner import Outcome, exc_kind, fiddle_frame
from harness.vuni import sigs
import harness.vuni as vuni

RULE = (
    'Generated: a root fdl.Config over a generated signature shape x callable kind '
    '(function, class, classmethod, staticmethod, callable instance, dataclass, '
    'functools.partial), a generated subset of parameters set through generated routes '
    '(constructor positional/keyword, setattr, index, VARARGS slice, overwrite, '
    'delete-then-set), values that are leaves or earlier nodes (lists, tuples, dicts, named '
    'tuples, nested Configs). Oracle: direct call of the callable on the reference-built '
    'arguments read from the documented storage. Non-trivial: a positional parameter is '
    'unset while a later positional parameter or *args is set, or a nested Buildable sits '
    'inside a container, or the callable kind is not a plain function. Distinct = distinct '
    'SHA-1 of the case JSON.'
)
RULE += (' ' + 'Also generated: sequences of Buildables over unhashable callable instances (eq=True dataclasses with __call__).')
RULE += (' ' + 'Round 7: keyword arguments that become positional-only / *args names through fdl.update_callable to a callable without **kwargs.')
RULE += (' ' + 'Round 6: argument values without a truth value (array-like: bool() raises).')
RULE += (' ' + "Rounds 3-5: bound methods and the plain functions they wrap in generated order (class created per case); **kwargs entries named like positional-only / *args / **kwargs parameters; tags on the root's arguments; positional defaults None / 0; OrderedDict and list-subclass argument values; **kwargs configured in non-alphabetical order, with a clause on the order the callee receives them.")
ASSUMPTIONS = [
    'inspect.signature of the universe callables is correct (CPython)',
    'reference evaluator refmodel.ref_build/form_call (about 60 lines) is correct',
    'C-implemented callables without signatures are out of scope',
]
BUDGET = {'quick': 16 * 2000, 'thorough': 16 * 15000}
FLOORS = {'gap': 0.037, 'nested_in_container': 0.042, 'required_missing': 0.03}


@st.composite
def strategy_(draw, tier):
  # plain literals, and now and then a value that has no truth value (array-like)
  leaf_st = st.sampled_from(range(12)).flatmap(
      lambda i: st.just({'$sym': 'things:NO_TRUTH'}) if i == 0 else leaves.leaf('plain'))
  nodes = []
  n_pre = draw(st.integers(0, 6))
  simple_fns = [{'kind': 'sym', 'name': 'things:f2'}, {'kind': 'sym', 'name': 'things:ident'},
                {'kind': 'sym', 'name': 'things:g3'}]
  for _ in range(n_pre):
    kind = draw(st.sampled_from(['B', 'B', 'list', 'tuple', 'dict', 'nt', 'odict', 'lsub'])) if nodes else 'B'
    nav = len(nodes)
    ref = lambda: recipes.child_ref(draw, nav, leaf_st, p_alias=0.65)
    if kind == 'B':
      fn = draw(st.sampled_from(simple_fns))
      if fn['name'] == 'things:g3':
        node = {'k': 'B', 'bt': 'Config', 'fn': fn, 'pos': [ref() for _ in range(draw(st.integers(1, 3)))],
                'kw': {}, 'edits': []}
      else:
        node = {'k': 'B', 'bt': 'Config', 'fn': fn, 'pos': [], 'kw': {'x': ref()}, 'edits': []}
    elif kind in ('list', 'tuple'):
      node = {'k': kind, 'items': [ref() for _ in range(draw(st.integers(0, 3)))]}
    elif kind == 'dict':
      keys = draw(st.lists(st.sampled_from(['a', 'b', 1, 2]), unique=True, max_size=3))
      node = {'k': 'dict', 'keys': keys, 'items': [ref() for _ in keys]}
    elif kind == 'odict':
      keys = draw(st.lists(st.sampled_from(['a', 'b', 1]), unique=True, min_size=1, max_size=3))
      node = {'k': 'odict', 'keys': keys, 'vals': [draw(leaf_st) for _ in keys]}
    elif kind == 'lsub':
      node = {'k': 'lsub', 'vals': [draw(leaf_st) for _ in range(draw(st.integers(0, 3)))]}
    else:
      node = {'k': 'nt', 'type': draw(st.sampled_from(['Pair', 'PairSub', 'GenericNT'])), 'items': [ref(), ref()]}
    nodes.append(node)
  if draw(st.sampled_from(range(12))) == 0:
    # callables whose positional defaults are None / 0 (falsy defaults)
    fnspec = {'kind': 'sym', 'name': draw(st.sampled_from(['things:join_none', 'things:pos_none']))}
  else:
    fnspec = draw(recipes.fnspecs())
  nav = len(nodes)
  pick = lambda: recipes.child_ref(draw, nav, leaf_st, p_alias=0.6)
  if draw(st.sampled_from(range(15))) == 0:
    # history: configured by keyword over a **kwargs callable, then fdl.update_callable to a
    # callable without **kwargs in which some of those names are positional-only / the *args name
    tgt, clash, ok = draw(st.sampled_from([
        ('things:po2', ['p0', 'p1'], ['a']), ('things:pos_none', ['a', 'b'], ['c']),
        ('things:join_none', ['rest'], ['first', 'sep']), ('things:po3', ['p1', 'p2', 'p0'], ['a'])]))
    names = draw(st.lists(st.sampled_from(clash + ok + ok), min_size=1, max_size=3, unique=True))
    root = {'k': 'B', 'bt': 'Config', 'fn': {'kind': 'sym', 'name': 'things:kwf'}, 'pos': [],
            'kw': {n: pick() for n in names}, 'edits': [['try_update_callable', tgt]]}
    nodes.append(root)
    return {'nodes': nodes, 'root': len(nodes) - 1, 'pattern': 'updated_callable'}
  pos, kw, edits, pattern = draw(recipes.arg_program(fnspec, pick))
  root = {'k': 'B', 'bt': 'Config', 'fn': fnspec, 'pos': pos, 'kw': kw, 'edits': edits}
  if draw(st.sampled_from(range(6))) == 0:
    # tags on the root's arguments, by index and by name (they must not influence the call)
    info = recipes.ParamInfo(recipes.resolve_fn(fnspec))
    keys = list(range(len(info.posonly))) + info.poskw + info.kwonly
    if info.varargs:
      keys.append(info.npos)
    if keys:
      root['tags'] = [[k, draw(st.sampled_from(['TagA', 'TagB']))]
                      for k in draw(st.lists(st.sampled_from(keys), min_size=1, max_size=3, unique_by=repr))]
  nodes.append(root)
  return {'nodes': nodes, 'root': len(nodes) - 1, 'pattern': pattern}


@st.composite
def useq_(draw):
  """A sequence of short-lived *unhashable* callable instances (eq=True dataclasses with
  __call__) of three classes with different signatures, each configured and built: a cache
  that identifies such callables by id() would hand a dead instance's signature to a new one."""
  items = []
  for _ in range(draw(st.integers(4, 14))):
    cls = draw(st.sampled_from(['UCallA', 'UCallB', 'UCallC']))
    if cls == 'UCallA':
      pos = [draw(st.integers(0, 9))] + ([draw(st.integers(0, 9))] if draw(st.booleans()) else [])
      kw = {}
    elif cls == 'UCallB':
      pos = [draw(st.integers(0, 9))]
      kw = {'r': draw(st.integers(0, 9))} if draw(st.booleans()) else {}
      if draw(st.booleans()):
        kw['q'] = draw(st.integers(0, 9))
    else:
      pos = [draw(st.integers(0, 9)) for _ in range(draw(st.integers(0, 3)))]
      kw = {}
    items.append({'cls': cls, 'pos': pos, 'kw': kw})
  return {'kind': 'useq', 'items': items}


@st.composite
def mseq_(draw):
  """Bound methods and the plain functions they wrap (obj.scale vs Cls.scale with an explicit
  self), of a class created for this case, configured and built in a generated order."""
  items = []
  for _ in range(draw(st.integers(2, 6))):
    m = draw(st.sampled_from(['scale', 'shift', 'make']))
    how = draw(st.sampled_from(['bound', 'plain'] if m != 'make' else ['bound', 'func']))
    if m == 'scale':
      pos = [draw(st.integers(0, 9))]
      kw = {'offset': draw(st.integers(0, 9))} if draw(st.booleans()) else {}
    elif m == 'shift':
      pos = [draw(st.integers(0, 9)) for _ in range(draw(st.integers(0, 3)))]
      kw = {'by': draw(st.integers(0, 9))} if draw(st.booleans()) else {}
    else:
      pos = [draw(st.integers(0, 9))]
      kw = {'y': draw(st.integers(0, 9))} if draw(st.booleans()) else {}
    items.append({'m': m, 'how': how, 'pos': pos, 'kw': kw, 'k': draw(st.integers(0, 9))})
  return {'kind': 'mseq', 'items': items}


@st.composite
def _mixed(draw, tier):
  which = draw(st.sampled_from(['regular'] * 43 + ['useq'] * 3 + ['mseq'] * 4))
  if which == 'useq':
    return draw(useq_())
  if which == 'mseq':
    return draw(mseq_())
  return draw(strategy_(tier))


def strategy(tier):
  return _mixed(tier)


def _features(cfg):
  """Input-feature tags of the root config (for buckets and classes)."""
  info = recipes.ParamInfo(cfg.__fn_or_cls__)
  args = cfg.__arguments__
  set_pos = [info.key_of(i) in args for i in range(info.npos)]
  var_start = info.npos if info.varargs else None
  has_var = var_start is not None and var_start in args
  gap = False
  gap_required = False
  for i, s in enumerate(set_pos):
    if not s:
      later_posonly = any(set_pos[j] for j in range(i + 1, len(info.posonly)))
      if later_posonly or has_var:
        gap = True
        if not info.has_default[info.positional[i]]:
          gap_required = True
  return gap, gap_required, info


def _contains_buildable_in_container(cfg):
  for v in cfg.__arguments__.values():
    if isinstance(v, (list, tuple, dict)):
      for _, w in C.walk(v):
        if isinstance(w, fdl.Buildable):
          return True
  return False


def check_useq(case, out):
  from harness.vuni import things
  out.cls('unhashable_callable_sequence')
  out.nontrivial = True
  for i, it in enumerate(case['items']):
    inst = getattr(things, it['cls'])(k=i)
    vuni.reset_log()
    expected = inst(*it['pos'], **it['kw'])
    try:
      cfg = fdl.Config(inst, *it['pos'], **it['kw'])
      view = cfg[:]
      actual = fdl.build(cfg)
    except Exception as e:  # pylint: disable=broad-except
      out.add('build-raises-but-call-formable', exc_kind(e), fiddle_frame(e), 'unhashable-callable',
              f'item {i} {it}: {e!r}')
      return out
    if C.canon(expected) != C.canon(actual):
      out.add('build-differs-from-direct-call', 'mismatch', '', 'unhashable-callable',
              f'item {i} {it}: expected {expected!r} actual {actual!r} view {view!r}')
      return out
    del inst, cfg, actual, expected
  return out


def _kwargs_order(result):
  rec = getattr(result, '__vrec__', result)
  return list(rec.varkw) if isinstance(rec, vuni.Rec) else None


def check_mseq(case, out):
  from harness.vuni import things
  out.cls('method_sequence')
  hows = {(it['m'], it['how']) for it in case['items']}
  out.nontrivial = any((m, 'bound') in hows and ((m, 'plain') in hows or (m, 'func') in hows) for m in ('scale', 'shift', 'make'))
  cls = things.make_method_class()
  for i, it in enumerate(case['items']):
    if it['how'] == 'bound':
      fn = getattr(cls(it['k']), it['m']) if it['m'] != 'make' else cls.make
      pos = list(it['pos'])
    elif it['how'] == 'plain':
      fn = getattr(cls, it['m'])          # plain function: self is an ordinary first argument
      pos = [f"self{it['k']}"] + list(it['pos'])
    else:
      fn = cls.__dict__['make'].__func__  # the function a classmethod wraps
      pos = [cls] + list(it['pos'])
    vuni.reset_log()
    expected = fn(*pos, **it['kw'])
    try:
      cfg = fdl.Config(fn, *pos, **it['kw'])
      view = cfg[:]
      actual = fdl.build(cfg)
    except Exception as e:  # pylint: disable=broad-except
      out.add('build-raises-but-call-formable', exc_kind(e), fiddle_frame(e), 'method:' + it['how'],
              f'item {i} {it}: {e!r}')
      return out
    if C.canon(expected) != C.canon(actual):
      out.add('build-differs-from-direct-call', 'mismatch', '', 'method:' + it['how'],
              f'item {i} {it}: expected {expected!r} actual {actual!r} view {view!r}')
      return out
  return out


def check(case):
  out = Outcome()
  if case.get('kind') == 'useq':
    return check_useq(case, out)
  if case.get('kind') == 'mseq':
    return check_mseq(case, out)
  notes = []
  try:
    root, _ = recipes.build_recipe(case, notes)
  except Exception as e:  # constructor rejected the program: not C01's business
    out.skipped = 'construction_raised:' + type(e).__name__
    return out
  gap, gap_required, info = _features(root)
  kind = case['nodes'][case['root']]['fn']['kind']
  nested = _contains_buildable_in_container(root)
  feature = 'gap-required' if gap_required else ('gap' if gap else 'nogap')
  out.cls('kind_' + kind, 'pattern_' + case.get('pattern', '?'))
  if gap:
    out.cls('gap')
  if nested:
    out.cls('nested_in_container')
  out.nontrivial = gap or nested or kind != 'fn'

  # reference
  vuni.reset_log()
  try:
    expected = R.ref_build(root)
    exp_kind = 'value'
  except R.CannotFormCall as e:
    expected, exp_kind = e, 'cannot_form'
  except R.RefRaised as e:
    expected, exp_kind = e, 'raises'
  except RecursionError:
    out.skipped = 'recursion'
    return out
  if exp_kind != 'value':
    out.cls('required_missing')
  ref_calls = len(vuni.LOG)

  vuni.reset_log()
  try:
    actual = fdl.build(root)
    act_kind = 'value'
  except Exception as e:  # pylint: disable=broad-except
    actual, act_kind = e, 'raises'

  if exp_kind == 'value':
    if act_kind == 'raises':
      out.add('build-raises-but-call-formable', exc_kind(actual), fiddle_frame(actual), feature,
              f'{actual!r}; expected {expected!r}; cfg={root!r}')
    else:
      ce, ca = C.canon(expected), C.canon(actual)
      if ce != ca:
        out.add('build-differs-from-direct-call', 'mismatch', '', feature,
                f'expected {expected!r}\nactual   {actual!r}\ncfg={root!r}')
      elif len(vuni.LOG) != ref_calls:
        out.add('invocation-count', 'mismatch', '', feature,
                f'{len(vuni.LOG)} calls vs {ref_calls} in the reference')
      elif _kwargs_order(expected) != _kwargs_order(actual):
        # **kwargs reach the callable in the configured (insertion) order, as in a direct call
        out.add('kwargs-order-differs-from-direct-call', 'mismatch', '', feature,
                f'expected {_kwargs_order(expected)} actual {_kwargs_order(actual)} cfg={root!r}')
      # default_factory: two builds give distinct default objects
      if kind == 'DC' and ce == ca:
        again = fdl.build(root)
        for f_ in [f for f in again.__dataclass_fields__]:
          a, b = getattr(actual, f_), getattr(again, f_)
          if isinstance(a, list) and a and isinstance(a[0], str) and a[0].startswith('f_') and a is b:
            out.add('default-factory-shared-between-builds', 'mismatch', '', feature, f_)
  else:
    if act_kind == 'value':
      out.add('build-returns-but-call-not-formable', 'returned', '', feature,
              f'reference: {expected!r}; build returned {actual!r}; cfg={root!r} '
              f'args={root.__arguments__!r}')
  return out


def enumerate_cases(tier):
  """Thorough: every shape x {fn, Cls} x every subset of parameters set (leaf values)."""
  if tier != 'thorough':
    return
  for code in sigs.all_shape_codes():
    sh = sigs.Shape(code)
    names = sh.positional + sh.kwonly
    n = len(names)
    for kind in ('fn', 'Cls'):
      for mask in range(2 ** n):
        for nvar in ((0, 2) if sh.varargs else (0,)):
          edits = []
          for i, name in enumerate(names):
            if not (mask >> i) & 1:
              continue
            if i < len(sh.positional):
              edits.append(['setitem', i, {'leaf': f'v_{name}'}])
            else:
              edits.append(['setattr', name, {'leaf': f'v_{name}'}])
          if nvar:
            edits.append(['setslice', ['V', None, None], [{'leaf': 'va0'}, {'leaf': 'va1'}]])
          if sh.varkw and mask % 3 == 0:
            edits.append(['setattr', 'z0', {'leaf': 'v_z0'}])
          yield {'nodes': [{'k': 'B', 'bt': 'Config', 'fn': {'kind': kind, 'code': code},
                            'pos': [], 'kw': {}, 'edits': edits}], 'root': 0, 'pattern': 'enum'}


def evidence_extra(tier):
  if tier == 'thorough':
    return {'exhaustive_subspace': 'all 1176 signature shapes x {function, class} x all subsets of '
            'parameters set x {0, 2} varargs, leaf values (enumerated completely; see "enumerated")'}
  return {}
