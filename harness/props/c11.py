"""C11 — auto_config: building as_buildable() equals calling the function."""

import ast
import hashlib
import importlib.util
import linecache
import os
import shutil
import sys

import fiddle as fdl
from fiddle._src.experimental import auto_config as ac
from hypothesis import strategies as st

from harness import canon as C
from harness.gen import programs
from harness.runner import Outcome, exc_kind, fiddle_frame
import harness.vuni as vuni

RULE = (
    'Generated: module source texts (written to a scratch directory and imported so that '
    'inspect.getsource works) defining 0-2 helper auto_config functions (inlined or not) and a '
    'target in one of five forms (module-level function, closure over an outer variable, lambda, '
    'staticmethod, classmethod) whose body is a sequence of assignments and a return over '
    'expressions: calls of universe callables with positional, keyword, *[...] and **{...} '
    'arguments, variables (sharing), list/tuple/dict displays, literals, functools.partial (also '
    'partial of partial), arg_factory.partial, helper calls, auto_config.exempt(F)(literals), '
    'with_tags, builtin calls; with experimental_allow_control_flow also if/else, for+append, '
    'list/dict comprehensions and conditional expressions; plus a fixed stream of programs with '
    'unsupported constructs. Oracle: canonical form (values, types, sharing; partials '
    'behaviourally) of fn(*args) equals that of fdl.build(fn.as_buildable(*args)); only '
    'exempt-wrapped callables run during as_buildable; decorated(*args) equals the undecorated '
    'twin; unsupported constructs raise UnsupportedLanguageConstructError at decoration. '
    'Non-trivial: program has >=2 interacting construct groups (splat + nested call, closure '
    '+ helper, variable reused in two places, control flow + partial ...).'
)
RULE += (' ' + 'Round 6: arg_factory.partial factories that are themselves auto_config helpers; every built partial is called twice and what the two results share is compared with the plain function.')
RULE += (' ' + 'Rounds 3-5: arg_factory.partial factories bound to variables used elsewhere; a user-defined exception class as configurable callable.')
ASSUMPTIONS = [
    'programs whose plain Python run raises say nothing about the rewrite and are skipped',
    'exempted calls take only literal arguments (anything else is outside the supported subset)',
    'the supported subset is what the docstring and tests document; other constructs are not generated',
]
BUDGET = {'quick': 16 * 250, 'thorough': 16 * 6000}
RULE += (' ' + 'Round 8: now and then the returned structure nests dicts of plain values before the dict that holds the configurable calls.')
FLOORS = {'multi_construct': 0.3, 'control_flow': 0.191, 'shared_variable': 0.064}

SCRATCH = os.path.join('/dev/shm', f'verif_c11_{os.getuid()}')

UNSUPPORTED = [
    ('nested_def', 'def target(a, b=2):\n  def inner():\n    return things.ident(x=a)\n  return inner()\n'),
    ('class_def', 'def target(a, b=2):\n  class L:\n    pass\n  return things.ident(x=a)\n'),
    ('if_without_flag', 'def target(a, b=2):\n  if a:\n    v = things.ident(x=a)\n  else:\n    v = things.ident(x=b)\n  return v\n'),
    ('for_without_flag', 'def target(a, b=2):\n  l = []\n  for i in range(2):\n    l.append(things.ident(x=i))\n  return things.f2(x=l)\n'),
    ('listcomp_without_flag', 'def target(a, b=2):\n  return things.f2(x=[things.ident(x=i) for i in range(2)])\n'),
    ('nested_lambda', 'def target(a, b=2):\n  f = lambda q: things.ident(x=q)\n  return f(a)\n'),
    ('with_stmt', 'def target(a, b=2):\n  with open("/dev/null") as f:\n    return things.ident(x=a)\n'),
    ('try_stmt', 'def target(a, b=2):\n  try:\n    return things.ident(x=a)\n  except Exception:\n    return None\n'),
]


def strategy(tier):
  return st.one_of(programs.programs().map(lambda p: {'kind': 'program', 'p': p}),
                   programs.programs().map(lambda p: {'kind': 'program', 'p': p}),
                   programs.programs().map(lambda p: {'kind': 'program', 'p': p}),
                   programs.programs().map(lambda p: {'kind': 'program', 'p': p}),
                   st.integers(0, len(UNSUPPORTED) - 1).map(lambda i: {'kind': 'unsupported', 'i': i}))


def load_module(src):
  d = os.path.join(SCRATCH, str(os.getpid()))
  os.makedirs(d, exist_ok=True)
  name = 'c11prog_' + hashlib.sha1(src.encode()).hexdigest()[:16]
  path = os.path.join(d, name + '.py')
  with open(path, 'w') as f:
    f.write(src)
  spec = importlib.util.spec_from_file_location(name, path)
  mod = importlib.util.module_from_spec(spec)
  sys.modules[name] = mod
  try:
    spec.loader.exec_module(mod)
  except BaseException:
    unload(name, path)
    raise
  return mod, name, path


def unload(name, path):
  sys.modules.pop(name, None)
  linecache.cache.pop(path, None)
  try:
    os.remove(path)
  except OSError:
    pass


def _groups(p):
  """Construct groups used by the program (for the non-triviality rule)."""
  g = set()
  varuse = {}

  def rec(e):
    if isinstance(e, list) and e:
      k = e[0]
      if k == 'var':
        varuse[e[1]] = varuse.get(e[1], 0) + 1
      if k == 'call':
        g.add('call')
        if e[4] is not None or e[5] is not None:
          g.add('splat')
      if k in ('partial', 'partial2', 'partialv', 'afpartial'):
        g.add('partial')
      if k == 'helper':
        g.add('helper')
      if k == 'exempt':
        g.add('exempt')
      if k == 'tags':
        g.add('tags')
      if k in ('ifexp', 'listcomp', 'dictcomp', 'if', 'forappend'):
        g.add('control')
      for x in e:
        rec(x)
    elif isinstance(e, dict):
      for x in e.values():
        rec(x)

  rec(p['body'])
  if p['form'] != 'plain':
    g.add('form_' + p['form'])
  shared = any(n.startswith(('v', 'l')) and c >= 2 for n, c in varuse.items())
  if shared:
    g.add('shared')
  return g, shared


def _exempt_names(p):
  names = set()

  def rec(e):
    if isinstance(e, list) and e:
      if e[0] == 'exempt':
        names.add(e[1].split('.')[-1])
      for x in e:
        rec(x)
    elif isinstance(e, dict):
      for x in e.values():
        rec(x)

  rec(p['body'])
  for h in p['helpers']:
    rec(h['body'])
  return names


def _canon(x):
  return C.Canon(callable_probe=True, probe_twice=True).term(x)


def check(case):
  out = Outcome()
  if case['kind'] == 'unsupported':
    name, body = UNSUPPORTED[case['i']]
    out.cls('unsupported')
    out.nontrivial = True
    src = programs.HEADER + '\n@auto_config.auto_config\n' + body
    try:
      mod, mname, path = load_module(src)
    except ac.UnsupportedLanguageConstructError:
      return out
    except Exception as e:  # pylint: disable=broad-except
      out.add('unsupported-construct-wrong-exception', exc_kind(e), fiddle_frame(e), name, repr(e)[:300])
      return out
    try:
      out.add('unsupported-construct-accepted', 'returned', '', name, body[:200])
    finally:
      unload(mname, path)
    return out

  p = case['p']
  src = programs.render_program(p)
  groups, shared = _groups(p)
  if len(groups - {'call'}) >= 2:
    out.cls('multi_construct')
  if p['control_flow'] and 'control' in groups:
    out.cls('control_flow')
  if shared:
    out.cls('shared_variable')
  if 'partialv' in str(p['body']):
    out.cls('partial_of_variable')
  if p.get('cv2') and 'cv' in str(p['body']):
    out.cls('closure_rebound')
  if p.get('nested_ret'):
    out.cls('nested_ret')
  out.cls('form_' + p['form'])
  out.nontrivial = len(groups - {'call'}) >= 2
  feat = p['form'] + (':cf' if p['control_flow'] else '')
  try:
    compile(src, '<c11>', 'exec')
  except SyntaxError as e:
    out.skipped = 'generated-program-syntax-error'
    return out
  try:
    mod, mname, path = load_module(src)
  except Exception as e:  # pylint: disable=broad-except
    out.add('decoration-raises', exc_kind(e), fiddle_frame(e), feat, f'{e!r}\n{src}'[:2500])
    return out
  try:
    args = [ast.literal_eval(a) for a in p['args']]
    vuni.reset_log()
    try:
      expected = mod.plain(*args)
    except Exception as e:  # pylint: disable=broad-except
      out.skipped = 'plain-python-raises:' + type(e).__name__
      if isinstance(e, NameError) and os.environ.get('VERIF_DEBUG_C11'):
        print('NAMEERROR', e, '\n', src)
      return out
    ce = _canon(expected)
    # decorated direct call == undecorated
    vuni.reset_log()
    try:
      direct = mod.target(*args)
    except Exception as e:  # pylint: disable=broad-except
      out.add('decorated-call-raises', exc_kind(e), fiddle_frame(e), feat, f'{e!r}\n{src}'[:2500])
      return out
    if _canon(direct) != ce:
      out.add('decorated-call-differs-from-undecorated', 'mismatch', '', feat, src[:2500])
      return out
    # as_buildable invokes nothing (except exempted callables)
    exempt = _exempt_names(p)
    vuni.reset_log()
    try:
      cfg = mod.target.as_buildable(*args)
    except Exception as e:  # pylint: disable=broad-except
      if 'did not contain' in str(e) and 'version of `helper' not in str(e) and _ret_direct_buildable(p):
        # (a helper whose own result holds no Buildable is rejected legitimately: the message names it)
        # the returned expression holds a configurable call reached through list / tuple / dict
        # displays only: the structure as_buildable sees does contain a Buildable
        out.add('as_buildable-rejects-result-containing-buildable', exc_kind(e), '', feat, f'{e!r}\n{src}'[:2500])
        return out
      if 'did not contain' in str(e) or not _contains_rec(expected):
        out.skipped = 'result-has-no-buildable'
        return out
      out.add('as_buildable-raises', exc_kind(e), fiddle_frame(e), feat, f'{e!r}\n{src}'[:2500])
      return out
    bad = [r.fn for r in vuni.LOG if r.fn.split('.')[-1] not in exempt]
    if bad:
      out.add('as_buildable-invoked-configurable-callable', 'invoked', '', feat, f'{bad[:4]}\n{src}'[:2500])
      return out
    vuni.reset_log()
    try:
      built = fdl.build(cfg)
    except Exception as e:  # pylint: disable=broad-except
      out.add('build-of-as_buildable-raises', exc_kind(e), fiddle_frame(e), feat, f'{e!r}\ncfg={_safe_repr(cfg)}\n{src}'[:3000])
      return out
    cb = _canon(built)
    if cb != ce:
      kind = 'sharing-only' if C.Canon(callable_probe=True, sharing=False).term(built) == \
          C.Canon(callable_probe=True, sharing=False).term(expected) else 'values'
      out.add('built-graph-differs-from-function-result', kind, '', feat,
              f'python {str(ce)[:600]}\nbuilt  {str(cb)[:600]}\ncfg={_safe_repr(cfg)}\n{src}'[:4000])
  finally:
    unload(mname, path)
  return out


def _safe_repr(x):
  try:
    return repr(x)
  except BaseException as e:  # pylint: disable=broad-except
    return f'<repr failed: {type(e).__name__}>'


def _ret_direct_buildable(p):
  """True if the final `return` expression holds a configurable call / partial reachable through
  list, tuple and dict displays only (anything else is 'unknown' and answers False)."""
  ret = p['body'][-1]
  if ret[0] != 'return':
    return False

  def walk(e):
    if e[0] in ('call', 'partial'):
      return True
    if e[0] in ('list', 'tuple'):
      return any(walk(x) for x in e[1])
    if e[0] == 'dict':
      return any(walk(v) for _, v in e[1])
    return False
  return walk(ret[1])


def _contains_rec(x):
  t = str(C.canon(x))
  return "'Rec'" in t or "'fpartial'" in t
