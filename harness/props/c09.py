"""C09 — JSON serialization is lossless or loud, and policy-gated."""

import base64
import json
import zlib

import fiddle as fdl
from fiddle._src.absl_flags import utils as flag_utils
from fiddle.experimental import serialization
from fiddle._src.experimental import serialization as _ser_impl
from hypothesis import strategies as st

from harness import canon as C
from harness.gen import dags, leaves
from harness.runner import Outcome, exc_kind, fiddle_frame
import harness.vuni as vuni
from harness.vuni import things

RULE = (
    'Generated: DAG recipes with serializable leaves (ints of any size, +-inf, nan, -0.0, '
    'arbitrary str incl. lone surrogates, arbitrary bytes incl. escape-like sequences such as '
    "b'\\\\u0041', enums, slices, NO_VALUE, functions/classes as values, a registered constant, a "
    'dict-based object), Config/Partial/ArgFactory nodes with positional, *args and keyword '
    'arguments, tags (also on unset arguments), unset parameters, lists, tuples, named tuples, '
    'defaultdicts, sets/frozensets, dicts whose keys are any hashable serializable value (incl. '
    'tuples, bytes, enums, equal-looking 1/1.0/True alternatives), shared containers, '
    'TaggedValues in containers; some cases add a deliberately unserializable leaf. Policy '
    'documents: dumped documents whose pyrefs are mutated to canary / disallowed symbols, loaded '
    'under allow-list, deny-all and deny-by-value policies. Oracle: dump_json raises or returns '
    'text json.loads accepts; canonical form (types, leaves by type+repr, callables, tags, '
    'sharing, unset stays unset) of load_json(doc) equals the input\'s; re-dump of the '
    'reconstruction is identical (modulo set order); no configured callable runs during load; '
    'every symbol import_symbol returns was approved by allows_import and allows_value of the '
    'supplied policy during that call. Non-trivial: sharing and >=2 distinct non-JSON leaf '
    'types, or bytes with a backslash, or a policy document with a disapproved pyref.'
)
RULE += (' ' + 'Also generated: a class and a function whose snake-cased names collide (DataLoader / data_loader) in one document.')
RULE += (' ' + 'Round 7: a dict-based class with a __setattr__ of its own.')
RULE += (' ' + 'Round 6: a constant registered by value that equals a JSON primitive of another type (Fraction(3, 2) == 1.5), as a leaf next to such primitives.')
RULE += (' ' + 'Rounds 3-5: policy documents also through ZlibJSONSerializer (optionally after a first decode under an allow-all policy); dict-based class with a __new__ of its own; inherited classmethods reached through a subclass; three rejected register_constant calls with hash-equal unserializable values.')
ASSUMPTIONS = [
    "json.loads is the documented parser: Python's NaN/Infinity tokens are admitted",
    'a dump that raises is a rejection (lossless-or-loud); only returned documents are judged',
    'policy observation wraps serialization.import_symbol and records the supplied policy object',
]
BUDGET = {'quick': 16 * 500, 'thorough': 16 * 12000}
FLOORS = {'round_trip_ok': 0.402, 'bytes_backslash': 0.034, 'policy_doc': 0.07, 'sharing': 0.214}

serialization.register_constant('harness.vuni.things', 'CONST_OBJ', compare_by_identity=True)
serialization.register_dict_based_object(things.DictObj)
# registrations the library rejects (a caller may well swallow the error and carry on); values that
# are merely hash-equal to these constants must stay unserializable afterwards
for _name in ('HALF', 'ADAM', 'PAIR34'):
  try:
    serialization.register_constant('harness.vuni.things', _name, compare_by_identity=False)
  except ValueError:
    pass
serialization.register_dict_based_object(things.DictObjNew)
serialization.register_dict_based_object(things.DictObjGuard)
# a constant registered by value that is == (and hash-equal) to the float 1.5: the float stays a float
serialization.register_constant('harness.vuni.things', 'FRAC_3_2', compare_by_identity=False)


@st.composite
def strategy_(draw, tier):
  recipe = draw(dags.dag(
      max_nodes=10, min_nodes=2, leaf_profile='serializable', bts=('Config', 'Partial', 'ArgFactory'),
      kinds=['B', 'B', 'Bpos', 'list', 'tuple', 'dict', 'kdict', 'kdict', 'ddict', 'nt', 'set', 'fset', 'TV',
             'ltuple', 'ntuple',
             # further node kinds of the shared generator that this check's oracle handles (each once)
             'mdict', 'Bann', 'Bmut', 'Bmut1', 'Bmutnest', 'Bpo', 'Bdc', 'Bempty', 'AFP', 'holder', 'odict', 'dcinst', 'Bclash', 'Bdictcfg'],
      fns=['things:f2', 'things:h1', 'things:Base', 'things:LeafCls', 'things:DataLoader', 'things:data_loader',
           'things:SubCM.make', 'things:BaseCM.make'],
      root_kinds=['B', 'B', 'list', 'dict', 'tuple', 'Bpos'], p_alias=0.75, tags=True))
  mode = draw(st.sampled_from(['roundtrip', 'roundtrip', 'roundtrip', 'unserializable', 'policy']))
  case = {'recipe': recipe, 'mode': mode}
  if mode == 'unserializable':
    case['bad'] = draw(st.sampled_from(['things:LAMBDA', 'complex', 'localobj', 'fraction_half', 'strsub', 'tupsub']))
  if mode == 'policy':
    case['policy'] = draw(st.sampled_from(['allow_vuni', 'deny_all', 'deny_value', 'allow_all']))
    case['mutation'] = draw(st.sampled_from(['none', 'canary_fn', 'canary_cls', 'os_system', 'type_swap',
                                             'builtins_eval']))
    case['sel'] = draw(st.integers(0, 30))
    # through the flag serializer (zlib + base64 around the same JSON), optionally after the same
    # payload was already decoded once under a policy that allows everything
    case['via'] = draw(st.sampled_from(['load_json', 'load_json', 'zlib', 'zlib_warm', 'zlib_warm']))
  return case


def strategy(tier):
  return strategy_(tier)


class RecordingPolicy(serialization.PyrefPolicy):
  """Records every question asked and the answer given."""

  def __init__(self, kind):
    self.kind = kind
    self.import_calls = []
    self.value_calls = []
    self.default = serialization.DefaultPyrefPolicy()

  def allows_import(self, module, symbol):
    if self.kind == 'deny_all':
      ans = False
    elif self.kind == 'allow_vuni':
      ans = module.startswith('harness.vuni') or module in ('fiddle._src.config', 'fiddle._src.partial',
                                                            'builtins', 'collections', 'fiddle._src.tag_type',
                                                            'fiddle._src.signatures')
      if module.startswith('harness.vuni') and 'anary' in symbol:
        ans = False
    else:
      ans = True
    self.import_calls.append((module, symbol, ans))
    return ans

  def allows_value(self, value):
    ans = self.default.allows_value(value)
    if self.kind == 'deny_value' and value in (things.canary, things.CanaryCls, things.f2):
      ans = False
    self.value_calls.append((value, ans))
    return ans


def _pyrefs(obj, acc):
  if isinstance(obj, dict):
    if obj.get('type') == 'pyref':
      acc.append(obj)
    for v in obj.values():
      _pyrefs(v, acc)
  elif isinstance(obj, list):
    for v in obj:
      _pyrefs(v, acc)
  return acc


def mutate_doc(doc, mutation, sel):
  refs = [r for r in _pyrefs(doc, []) if r.get('module', '').startswith('harness.vuni')]
  if mutation == 'none' or not refs:
    return doc, False
  r = refs[sel % len(refs)]
  if mutation == 'canary_fn':
    r['module'], r['name'] = 'harness.vuni.things', 'canary'
  elif mutation == 'canary_cls':
    r['module'], r['name'] = 'harness.vuni.things', 'CanaryCls'
  elif mutation == 'os_system':
    r['module'], r['name'] = 'os', 'system'
  elif mutation == 'builtins_eval':
    r['module'], r['name'] = 'builtins', 'eval'
  elif mutation == 'type_swap':
    r['module'], r['name'] = 'harness.vuni.things', 'Other'
  return doc, True


def _leaf_types(root):
  kinds = set()
  bs = False
  for _, v in C.walk(root):
    if C.is_leaf(v) and not isinstance(v, (int, str, bool, type(None))) or (isinstance(v, float)):
      kinds.add(type(v).__name__)
    if isinstance(v, bytes) and b'\\' in v:
      bs = True
    if isinstance(v, dict):
      for k in v:
        if isinstance(k, bytes) and b'\\' in k:
          bs = True
  return kinds, bs


def _has_set(root):
  for _, v in C.walk(root):
    if isinstance(v, (set, frozenset)):
      return True
    if isinstance(v, fdl.Buildable) and any(len(ts) >= 2 for ts in v.__argument_tags__.values()):
      return True  # tag sets are serialized as frozensets
    if isinstance(v, dict) and any(isinstance(k, frozenset) for k in v):
      return True
  return False


def check(case):
  out = Outcome()
  root, objs = dags.build(case['recipe'])
  for _, v in C.walk(root):
    if isinstance(v, fdl.Buildable):
      ints = sorted(k for k in v.__arguments__ if isinstance(k, int))
      if ints and ints != list(range(ints[0], ints[0] + len(ints))):
        # a hole in *args (an unset TaggedValue was passed positionally): what such a configuration
        # means is unspecified (C14 skips it for the same reason)
        out.skipped = 'hole-in-varargs'
        return out
  mode = case['mode']
  if mode == 'unserializable':
    import fractions
    bad = {'things:LAMBDA': things.LAMBDA, 'complex': 3 + 4j, 'localobj': type('Local', (), {})(),
           'fraction_half': fractions.Fraction(1, 2), 'strsub': things.StrSub('adam'),
           'tupsub': things.TupSub((3, 4))}[case['bad']]
    # put the bad leaf somewhere reachable
    if isinstance(root, fdl.Buildable):
      try:
        root.y = [bad]
      except Exception:  # pylint: disable=broad-except
        root = [root, bad]
    elif isinstance(root, list):
      root.append(bad)
    else:
      root = [root, {'k': bad}]
  idn = C.identity_nodes(root)
  sharing = any(len(ps) > 1 for _, ps in idn.values())
  kinds, bs = _leaf_types(root)
  if sharing:
    out.cls('sharing')
  if bs:
    out.cls('bytes_backslash')
  out.cls('mode_' + mode)
  feat = mode

  before = C.canon(root)
  vuni.reset_log()
  try:
    doc = serialization.dump_json(root)
  except Exception as e:  # rejection: allowed (lossless or loud)
    out.cls('dump_rejected')
    if mode == 'unserializable':
      out.cls('unserializable_rejected')
      out.nontrivial = True
    return out
  if mode == 'unserializable':
    out.add('unserializable-value-dumped-silently', 'returned', '', case['bad'], doc[:300])
    return out
  try:
    parsed = json.loads(doc)
  except Exception as e:  # pylint: disable=broad-except
    out.add('dump-not-valid-json', exc_kind(e), '', feat, repr(e)[:200])
    return out
  if C.canon(root) != before:
    out.add('dump-modified-input', 'mismatch', '', feat, '')
    return out

  if mode == 'policy':
    return check_policy(case, out, root, doc)

  vuni.reset_log()
  del things.CANARY_CALLS[:]
  try:
    back = serialization.load_json(doc)
  except Exception as e:  # pylint: disable=broad-except
    out.add('load-of-own-dump-raises', exc_kind(e), fiddle_frame(e), feat, f'{e!r}'[:400])
    return out
  if vuni.LOG:
    out.add('load-invoked-configured-callable', 'invoked', '', feat, str([r.fn for r in vuni.LOG][:5]))
    return out
  after = C.canon(back)
  if after != before:
    which = _diff_hint(root, back)
    out.add('round-trip-differs', 'mismatch', '', which,
            f'in  {str(before)[:700]}\nout {str(after)[:700]}')
    return out
  out.cls('round_trip_ok')
  # re-dump stability
  try:
    doc2 = serialization.dump_json(back)
  except Exception as e:  # pylint: disable=broad-except
    out.add('re-dump-raises', exc_kind(e), fiddle_frame(e), feat, repr(e)[:300])
    return out
  if not _has_set(root):
    if doc2 != doc:
      out.add('re-dump-differs', 'mismatch', '', feat, f'{doc[:300]}\n{doc2[:300]}')
      return out
  else:
    p2 = json.loads(doc2)
    if sorted(parsed['objects']) != sorted(p2['objects']) or C.canon(serialization.load_json(doc2)) != before:
      out.add('re-dump-differs', 'mismatch', '', feat + ':sets', '')
      return out
  out.nontrivial = bool((sharing and len(kinds) >= 2) or bs)
  return out


def _diff_hint(a, b):
  """Names the leaf type at the first differing leaf (bucket feature)."""
  try:
    wa = list(C.walk(a))
    wb = list(C.walk(b))
  except RecursionError:
    return 'deep'
  for (pa, va), (pb, vb) in zip(wa, wb):
    if C.is_leaf(va) and (not C.is_leaf(vb) or C.leaf_term(va) != C.leaf_term(vb)):
      return 'leaf:' + type(va).__name__
    if type(va) is not type(vb):
      return 'type:' + type(va).__name__
    if isinstance(va, dict) and [C.canon(k) for k in va] != [C.canon(k) for k in vb]:
      return 'dict-keys'
  return 'structure'


def check_policy(case, out, root, doc):
  parsed = json.loads(doc)
  parsed, mutated = mutate_doc(parsed, case['mutation'], case['sel'])
  text = json.dumps(parsed)
  policy = RecordingPolicy(case['policy'])
  out.cls('policy_doc', 'policy_' + case['policy'], 'mutation_' + case['mutation'])
  feat = case['policy'] + ':' + case['mutation']
  returned = []
  orig_import_symbol = _ser_impl.import_symbol

  def spy(pol, module, symbol):
    n_i, n_v = len(policy.import_calls), len(policy.value_calls)
    value = orig_import_symbol(pol, module, symbol)
    returned.append((pol, module, symbol, value, policy.import_calls[n_i:], policy.value_calls[n_v:]))
    return value

  via = case.get('via', 'load_json')
  out.cls('via_' + via)
  payload = None
  if via != 'load_json':
    payload = base64.urlsafe_b64encode(zlib.compress(text.encode())).decode('ascii')
    if via == 'zlib_warm':
      try:
        flag_utils.ZlibJSONSerializer().deserialize(payload, pyref_policy=RecordingPolicy('allow_all'))
      except Exception:  # pylint: disable=broad-except
        pass
  vuni.reset_log()
  del things.CANARY_CALLS[:]
  _ser_impl.import_symbol = spy
  try:
    try:
      if payload is None:
        back = serialization.load_json(text, pyref_policy=policy)
      else:
        back = flag_utils.ZlibJSONSerializer().deserialize(payload, pyref_policy=policy)
      raised = None
    except NameError:
      raise   # a harness bug, never a verdict
    except Exception as e:  # pylint: disable=broad-except
      back, raised = None, e
  finally:
    _ser_impl.import_symbol = orig_import_symbol
  if not returned and raised is None:
    if via == 'zlib_warm':
      # every document holds pyrefs: a decode that resolved nothing under *this* policy did not consult it
      out.add('decode-returned-without-consulting-the-supplied-policy', 'policy', '', feat, '')
    else:
      out.add('harness-spy-not-engaged', 'harness', '', feat, 'import_symbol spy saw no call')
    return out
  if (things.CANARY_CALLS or vuni.LOG) and not mutated:
    out.add('load-invoked-callable', 'invoked', '', feat, str(things.CANARY_CALLS[:2]))
    return out
  # (in a mutated document a class can stand where a named-tuple type is expected and is then
  # called by unflatten; whether that symbol was approved is judged below)
  disapproved = False
  for pol, module, symbol, value, icalls, vcalls in returned:
    if pol is not policy:
      out.add('load-used-a-different-policy', 'mismatch', '', feat, f'{module}.{symbol}')
      return out
    ok_i = any(m == module and s == symbol and a for m, s, a in icalls) or any(
        s == symbol and a for m, s, a in icalls)  # module may be rewritten by migration overrides
    ok_v = any(v is value and a for v, a in vcalls) or any(v == value and a for v, a in vcalls)
    if not ok_i:
      out.add('symbol-resolved-without-allows_import-approval', 'policy', '', feat, f'{module}.{symbol}')
      return out
    if not ok_v:
      out.add('symbol-resolved-without-allows_value-approval', 'policy', '', feat, f'{module}.{symbol}')
      return out
  denied = [c for c in policy.import_calls if not c[2]] + [c for c in policy.value_calls if not c[1]]
  if denied:
    out.cls('disapproved_pyref')
    if raised is None:
      out.add('load-returned-although-policy-denied-a-symbol', 'returned', '', feat, str(denied[:2])[:300])
      return out
  if raised is None and not mutated:
    if C.canon(back) != C.canon(root):
      out.add('round-trip-under-policy-differs', 'mismatch', '', feat, '')
  out.nontrivial = bool(denied) or mutated
  return out
