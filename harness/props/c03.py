"""C03 — attribute, index and slice edits behave like edits to a bound-argument list."""

import fiddle as fdl
from hypothesis import strategies as st

from harness import argmodel as M
from harness import canon as C
from harness.gen import recipes
from harness.runner import Outcome, exc_kind, fiddle_frame

RULE = (
    'Generated: (signature shape x callable kind incl. dataclasses), initial constructor '
    'arguments, then a history of up to 40 operations get/set/del by name, index, negative '
    'index, fdl.VARARGS and slice (all start/stop/step signs, empty and length-changing), '
    'operands drawn relative to the current model state (model-based generation). Oracle: '
    'ModelArgs (plain Python list/dict model); after every step cfg[:], cfg[i] for all '
    'in-range +-i, getattr for every name, ordered_arguments under all 24 legal flag '
    'combinations, dir() and the raw storage are compared; invalid edits must raise and '
    'change nothing. Non-trivial: history has a length-changing slice or deletion inside '
    '*args followed by a read, or any index/slice edit on a callable without *args, or a '
    'rejected edit. Distinct = distinct SHA-1 of the case JSON.'
)
ASSUMPTIONS = [
    'ModelArgs (harness/argmodel.py) is the reference: Python list semantics on '
    'fixed_prefix + varargs, dict semantics for names',
    'fdl.VARARGS is only used on callables that have *args (its meaning otherwise is unspecified)',
    'values are unique strings, so a shifted read is visible',
]
BUDGET = {'quick': 16 * 400, 'thorough': 16 * 8000}
FLOORS = {'len_change_in_varargs': 0.055, 'edit_without_varargs': 0.1, 'rejected_edit': 0.2}

_NAMES_EXTRA = ['args', 'kw', 'z0', 'z1', 'nope', 'self']


@st.composite
def strategy_(draw, tier):
  fnspec = draw(recipes.fnspecs(kinds=('fn', 'fn', 'Cls', 'cm', 'inst', 'DC', 'fpartial')))
  fn = recipes.resolve_fn(fnspec)
  info = recipes.ParamInfo(fn)
  if not info.varargs and draw(st.booleans()):
    fnspec = draw(recipes.fnspecs(kinds=('fn', 'Cls', 'sm', 'inst', 'fpartial')))
    fn = recipes.resolve_fn(fnspec)
    info = recipes.ParamInfo(fn)
  counter = [0]

  def val():
    counter[0] += 1
    return f'v{counter[0]}'

  # initial args (always bindable)
  npos0 = draw(st.integers(0, info.npos))
  pos = [val() for _ in range(npos0)]
  if info.varargs and npos0 == info.npos:
    pos += [val() for _ in range(draw(st.integers(0, 4)))]
  kw = {}
  for name in info.positional[max(npos0, len(info.posonly)):] + info.kwonly:
    if draw(st.booleans()):
      kw[name] = val()
  if info.varkw and draw(st.booleans()):
    kw['z0'] = val()
  model = M.ModelArgs(fn)
  model.init(pos, kw)
  names = info.positional + info.kwonly + _NAMES_EXTRA
  nops = draw(st.integers(1, 40 if tier == 'thorough' else 25))
  ops = []
  kinds = ['get_attr', 'set_attr', 'set_attr', 'del_attr', 'get_item', 'set_item', 'set_item',
           'del_item', 'get_slice', 'set_slice', 'set_slice', 'del_slice']

  def idx_st(n):
    cands = list(range(-(n + 2), n + 2))
    if info.varargs:
      cands += ['V', 'V']
    return st.sampled_from(cands)

  def bound_st(n):
    cands = [None, None] + list(range(-(n + 2), n + 3))
    if info.varargs:
      cands += ['V', 'V', 'V']
    return st.sampled_from(cands)

  for _ in range(nops):
    kind = draw(st.sampled_from(kinds))
    n = len(model.fixed) + len(model.var)
    if kind in ('get_attr', 'del_attr'):
      op = [kind, draw(st.sampled_from(names))]
    elif kind == 'set_attr':
      op = [kind, draw(st.sampled_from(names)), val()]
    elif kind in ('get_item', 'del_item'):
      op = [kind, draw(idx_st(n))]
    elif kind == 'set_item':
      op = [kind, draw(idx_st(n)), val()]
    else:
      sl = [draw(bound_st(n)), draw(bound_st(n)), draw(st.sampled_from([None, None, 1, 1, 2, -1, -2, 3]))]
      if kind == 'set_slice':
        pysl = _pyslice(sl, len(model.fixed))
        k = len(range(*pysl.indices(n)))
        cnt = draw(st.sampled_from([k, k, k, max(0, k - 1), k + 1, k + 2, 0]))
        op = [kind, sl, [val() for _ in range(cnt)]]
      else:
        op = [kind, sl]
    ops.append(op)
    # advance the model so later operands are drawn relative to the new state
    try:
      _apply_model(model, op)
    except (M.Invalid, IndexError):
      pass
  return {'fn': fnspec, 'pos': pos, 'kw': kw, 'ops': ops}


def strategy(tier):
  return strategy_(tier)


def _pyslice(sl, nfixed):
  f = lambda x: nfixed if x == 'V' else x
  return slice(f(sl[0]), f(sl[1]), sl[2])


def _apply_model(model, op):
  kind = op[0]
  nf = len(model.fixed)
  ix = lambda j: nf if j == 'V' else j
  if kind == 'set_attr':
    model.setattr(op[1], op[2])
  elif kind == 'del_attr':
    model.delattr(op[1])
  elif kind == 'set_item':
    model.setitem(ix(op[1]), op[2])
  elif kind == 'del_item':
    model.delitem(ix(op[1]))
  elif kind == 'set_slice':
    return model.setslice(_pyslice(op[1], nf), op[2])
  elif kind == 'del_slice':
    model.delslice(_pyslice(op[1], nf))
  return None


def _real_index(j):
  return fdl.VARARGS if j == 'V' else j


def _real_slice(sl):
  return slice(_real_index(sl[0]), _real_index(sl[1]), sl[2])


def _apply_real(cfg, op):
  kind = op[0]
  if kind == 'set_attr':
    setattr(cfg, op[1], op[2])
  elif kind == 'del_attr':
    delattr(cfg, op[1])
  elif kind == 'set_item':
    cfg[_real_index(op[1])] = op[2]
  elif kind == 'del_item':
    del cfg[_real_index(op[1])]
  elif kind == 'set_slice':
    cfg[_real_slice(op[1])] = list(op[2])
  elif kind == 'del_slice':
    del cfg[_real_slice(op[1])]


def _same(a, b):
  return C.canon(a, dict_order=True) == C.canon(b, dict_order=True)


def observe_mismatch(cfg, model, names):
  """Returns a description of the first observation that differs, or None."""
  try:
    view = cfg[:]
  except Exception as e:  # pylint: disable=broad-except
    return ('view-raises', f'cfg[:] raised {e!r}', e)
  mv = model.view()
  if not _same(view, mv):
    return ('view', f'cfg[:]={view!r} model={mv!r}', None)
  n = len(mv)
  for i in list(range(n)) + list(range(-n, 0)):
    try:
      v = cfg[i]
    except Exception as e:  # pylint: disable=broad-except
      return ('getitem-raises', f'cfg[{i}] raised {e!r}', e)
    if not _same(v, mv[i]):
      return ('getitem', f'cfg[{i}]={v!r} model={mv[i]!r}', None)
  for i in (n, -n - 1):
    try:
      v = cfg[i]
      return ('getitem-out-of-range-accepted', f'cfg[{i}]={v!r} with len {n}', None)
    except IndexError:
      pass
    except Exception as e:  # pylint: disable=broad-except
      return ('getitem-raises', f'cfg[{i}] raised {e!r}', e)
  st_real = dict(cfg.__arguments__)
  st_model = model.storage()
  if C.canon(st_real) != C.canon(st_model) or set(st_real) != set(st_model):
    return ('storage', f'__arguments__={st_real!r} model={st_model!r}', None)
  for name in names:
    exp = model.getattr(name)
    try:
      got = ('value', getattr(cfg, name))
    except Exception as e:  # pylint: disable=broad-except
      got = ('raise', type(e))
    if exp[0] != got[0] or (exp[0] == 'value' and not _same(exp[1], got[1])) or (
        exp[0] == 'raise' and exp[1] is ValueError and got[1] is not ValueError):
      return ('getattr', f'getattr({name!r}) -> {got!r}, model {exp!r}', None)
  for flags in M.FLAG_COMBOS:
    try:
      oa = fdl.ordered_arguments(cfg, **flags)
    except Exception as e:  # pylint: disable=broad-except
      return ('ordered_arguments-raises', f'{flags} raised {e!r}', e)
    ma = model.ordered_arguments(**flags)
    if list(oa.keys()) != list(ma.keys()) or not _same(list(oa.values()), list(ma.values())):
      return ('ordered_arguments', f'{flags}: {oa!r} model {ma!r}', None)
  try:
    d = set(dir(cfg))
  except Exception as e:  # pylint: disable=broad-except
    return ('dir-raises', f'dir(cfg) raised {e!r}', e)
  md = model.dir()
  if not md <= d or any(isinstance(x, str) and x in d and x not in md and not x.startswith('_')
                        for x in d):
    return ('dir', f'dir={sorted(map(str, d))} model={sorted(md)}', None)
  return None


def _slice_feature(op, model_before):
  sl = op[1]
  nf = len(model_before.fixed)
  pysl = _pyslice(sl, nf)
  n = nf + len(model_before.var)
  idxs = range(*pysl.indices(n))
  step = 'neg' if (sl[2] or 1) < 0 else ('ext' if (sl[2] or 1) > 1 else 'unit')
  region = 'fixed' if any(j < nf for j in idxs) else 'var'
  if any(j < nf for j in idxs) and any(j >= nf for j in idxs):
    region = 'both'
  if len(idxs) == 0:
    region = 'empty-' + ('fixed' if idxs.start < nf else 'var')
  extra = ''
  if op[0] == 'set_slice':
    k = len(op[2])
    extra = ':grow' if k > len(idxs) else (':shrink' if k < len(idxs) else ':same')
  return f'{step}:{region}{extra}'


def check(case):
  out = Outcome()
  fn = recipes.resolve_fn(case['fn'])
  info = recipes.ParamInfo(fn)
  model = M.ModelArgs(fn)
  try:
    cfg = fdl.Config(fn, *case['pos'], **case['kw'])
  except Exception as e:  # pylint: disable=broad-except
    out.add('constructor-raises-on-bindable-args', exc_kind(e), fiddle_frame(e), '', repr(e))
    return out
  model.init(case['pos'], case['kw'])
  names = info.positional + info.kwonly + _NAMES_EXTRA
  va = 'va' if info.varargs else 'nova'
  out.cls('kind_' + case['fn']['kind'], va)
  bad = observe_mismatch(cfg, model, names)
  if bad:
    out.add('initial-' + bad[0], exc_kind(bad[2]) if bad[2] else 'mismatch',
            fiddle_frame(bad[2]) if bad[2] else '', va, bad[1])
    return out
  len_change_then_read = False
  pending_len_change = False
  for step, op in enumerate(case['ops']):
    kind = op[0]
    if kind.startswith('get'):
      if pending_len_change:
        len_change_then_read = True
      # reads: compared as part of observe_mismatch below, plus the specific read
      if kind == 'get_slice':
        feat = _slice_feature(op, model)
        try:
          exp = model.view()[_pyslice(op[1], len(model.fixed))]
          exp_kind = 'value'
        except ValueError:
          exp_kind = 'raise'
        try:
          got = cfg[_real_slice(op[1])]
          got_kind = 'value'
        except Exception as e:  # pylint: disable=broad-except
          got, got_kind = e, 'raise'
        if exp_kind != got_kind:
          out.add('get_slice', 'raise-mismatch', fiddle_frame(got) if got_kind == 'raise' else '',
                  f'{va}:{feat}', f'step {step} {op}: got {got!r}')
          return out
        if exp_kind == 'value' and not _same(exp, got):
          out.add('get_slice', 'mismatch', '', f'{va}:{feat}', f'step {step} {op}: {got!r} model {exp!r}')
          return out
      elif kind == 'get_item' and op[1] != 'V':
        try:
          exp = ('value', model.getitem(op[1]))
        except IndexError:
          exp = ('raise',)
        try:
          got = ('value', cfg[op[1]])
        except Exception as e:  # pylint: disable=broad-except
          got = ('raise', e)
        if exp[0] != got[0] or (exp[0] == 'value' and not _same(exp[1], got[1])):
          out.add('get_item', 'mismatch', '', va, f'step {step} {op}: {got!r} model {exp!r}')
          return out
      continue
    before = model.clone()
    feat = va + ':' + kind
    if kind.endswith('slice'):
      feat += ':' + _slice_feature(op, before)
    elif kind.endswith('item'):
      j = op[1]
      n = len(before.fixed) + len(before.var)
      if j == 'V':
        feat += ':V'
      else:
        jj = j + n if j < 0 else j
        feat += ':' + ('neg' if j < 0 else 'pos') + ':' + (
            'oob' if jj < 0 or jj >= n else ('fixed' if jj < len(before.fixed) else 'var'))
    try:
      _apply_model(model, op)
      valid = True
    except (M.Invalid, IndexError) as e:
      valid = False
      model = before
    if not kind.endswith('attr') and not info.varargs:
      out.cls('edit_without_varargs')
    if valid and (len(model.var) != len(before.var)):
      out.cls('len_change_in_varargs')
      pending_len_change = True
    try:
      _apply_real(cfg, op)
      raised = None
    except Exception as e:  # pylint: disable=broad-except
      raised = e
    if valid and raised is not None:
      out.add('valid-edit-raised', exc_kind(raised), fiddle_frame(raised), feat,
              f'step {step} {op} on view {before.view()!r}: {raised!r}')
      return out
    if not valid:
      out.cls('rejected_edit')
      if raised is None:
        out.add('invalid-edit-accepted', 'no-exception', '', feat,
                f'step {step} {op} on view {before.view()!r}; now cfg[:]={_safe_view(cfg)}')
        return out
    bad = observe_mismatch(cfg, model, names)
    if bad:
      clause = ('after-valid-edit-' if valid else 'rejected-edit-changed-state-') + bad[0]
      out.add(clause, exc_kind(bad[2]) if bad[2] else 'mismatch',
              fiddle_frame(bad[2]) if bad[2] else '', feat,
              f'step {step} {op} on view {before.view()!r}: {bad[1]}')
      return out
  out.nontrivial = (len_change_then_read or 'edit_without_varargs' in out.classes
                    or 'rejected_edit' in out.classes)
  return out


def _safe_view(cfg):
  try:
    return repr(cfg[:])
  except Exception as e:  # pylint: disable=broad-except
    return f'<raises {e!r}>'
