"""C17 — read-only and copy-returning APIs never modify their input."""

import copy

import fiddle as fdl
from fiddle import graphviz as fgraphviz
from fiddle import printing
from fiddle._src import diffing
from fiddle._src import selectors
from fiddle._src import tagging
from fiddle._src.codegen import codegen_diff
from fiddle._src.codegen import legacy_codegen
from fiddle._src.codegen import new_codegen
from fiddle._src.codegen.auto_config import experimental_top_level_api
from fiddle._src.debug import grep as fgrep
from fiddle._src.experimental import serialization
from fiddle._src.experimental import transform
from fiddle._src.experimental import visualize
from fiddle._src.experimental import yaml_serialization
from fiddle._src.validation import baseline_style
from fiddle._src.validation import check_types
from fiddle._src.validation import no_custom_objects
from hypothesis import strategies as st

from harness import canon as C
from harness.gen import dags, leaves
from harness.runner import Outcome, exc_kind, fiddle_frame
import harness.vuni as vuni
from harness.vuni import tags as vtags
from harness.vuni import things

RULE = (
    'Generated: (entry point, configuration) pairs: one of ~45 read-only / copy-returning entry '
    'points (build, ==, repr, flattened printers, history printer, graphviz render and '
    'render_diff, dump_json, dump_yaml, build_diff (both arguments), apply_diff (diff and '
    'new), skeleton_from_diff, fiddler_from_diff, type/style/custom-object validators, three '
    'code generators, select iteration/get and tag iteration, debug.grep, cast, copy_with, '
    'deepcopy_with, materialize_tags (all options), clear_argument_history, trimmed, '
    'with_defaults_trimmed (both modes), structure, trim_fields_to, trim_long_fields, '
    'depth_over, unintern_tuples_of_literals, replace_unconfigured_partials_with_callables, '
    'list_tags, get_tags, ordered_arguments) on a generated DAG with shared nodes, long values, '
    'tags (also on value-less arguments), positional arguments, empty Buildables, '
    'TaggedValues. Oracle: canonical form (callables, arguments, tags, sharing) and the map '
    'path -> object identity of every identity-bearing reachable object are identical before '
    'and after the call, whether it returns or raises. Non-trivial: input has sharing, a tag '
    'and a value long enough to trigger trimming.'
)
RULE += (' ' + 'Also generated: for build, a callable that mutates its list/dict argument in place, given a Buildable-free container (directly or nested in a list).')
RULE += (' ' + 'Round 7: long values two levels inside container arguments; graphviz.render with max_str_length.')
RULE += (' ' + 'Round 6: the node shared by two sub-fixtures holds a Buildable / list / dict itself.')
RULE += (' ' + "Rounds 3-5: both code generators with the root's arguments as sub-fixtures (a tagged node shared by two of them); render_diff(trim=True) with OrderedDict leaves; build_diff against a copy with overlapping tag sets.")
RULE += (' ' + 'Round 8: with_defaults_trimmed on a node whose shared (untrimmable) mutable argument equal to its default is followed or preceded by a trimmable default-equal argument.')
ASSUMPTIONS = [
    'history is excluded from the compared state (as in the property statement)',
    'an API that raises on an input is not a C17 violation; only a changed input is',
]
BUDGET = {'quick': 16 * 450, 'thorough': 16 * 9000}
FLOORS = {'sharing': 0.209, 'has_tags': 0.441, 'long_value': 0.208}

LONG = 'L' * 90


def _other(cfg):
  o = copy.deepcopy(cfg)
  for b in [v for _, v in C.walk(o) if isinstance(v, fdl.Buildable)][:2]:
    try:
      b.y = 'changed'
    except Exception:  # pylint: disable=broad-except
      pass
  return o


def _other_tags(cfg):
  """A copy whose tagged arguments carry one more tag (overlapping, different tag sets)."""
  o = copy.deepcopy(cfg)
  for b in [v for _, v in C.walk(o) if isinstance(v, fdl.Buildable)]:
    for k, ts in b.__argument_tags__.items():
      if ts:
        ts.add(vtags.TagX if vtags.TagX not in ts else vtags.TagA)
  return o


def _p(cfg):
  from harness.gen import recipes
  info = recipes.ParamInfo(cfg.__fn_or_cls__)
  names = info.poskw + info.kwonly
  return 'y' if 'y' in names else names[-1]


def _first_b(cfg):
  return [v for _, v in C.walk(cfg) if isinstance(v, fdl.Buildable)]


def _direct_children(c):
  """The root's Buildable arguments as sub-fixtures (they often share descendants)."""
  out = {}
  for k, v in c.__arguments__.items():
    if isinstance(v, fdl.Buildable) and not any(v is o for o in out.values()):
      out[f'sub_{k}'] = v
  return out


APIS = {
    'build': lambda c: fdl.build(c),
    'eq': lambda c: c == copy.deepcopy(c),
    'ne_other': lambda c: c == _other(c),
    'repr': lambda c: repr(c),
    'as_str_flattened': lambda c: printing.as_str_flattened(c),
    'as_dict_flattened': lambda c: printing.as_dict_flattened(c),
    'history_per_leaf_parameter': lambda c: printing.history_per_leaf_parameter(c),
    'graphviz.render': lambda c: fgraphviz.render(c),
    'graphviz.render_max_str': lambda c: fgraphviz.render(c, max_str_length=20),
    'graphviz.render_diff': lambda c: fgraphviz.render_diff(old=c, new=_other(c)),
    'graphviz.render_diff_trim': lambda c: fgraphviz.render_diff(old=c, new=_other(c), trim=True),
    'graphviz.render_diff_trim_new': lambda c: fgraphviz.render_diff(old=_other(c), new=c, trim=True),
    'dump_json': lambda c: serialization.dump_json(c),
    'dump_yaml': lambda c: yaml_serialization.dump_yaml(c),
    'build_diff_old': lambda c: diffing.build_diff(c, _other(c)),
    'build_diff_old_tags': lambda c: diffing.build_diff(c, _other_tags(c)),
    'build_diff_new_tags': lambda c: diffing.build_diff(_other_tags(c), c),
    'build_diff_new': lambda c: diffing.build_diff(_other(c), c),
    'apply_diff_new': lambda c: diffing.apply_diff(diffing.build_diff(_other(c), c), _other(c)),
    'skeleton_from_diff': lambda c: diffing.skeleton_from_diff(diffing.build_diff(c, _other(c))),
    'fiddler_from_diff': lambda c: codegen_diff.fiddler_from_diff(diffing.build_diff(c, _other(c)), old=c),
    'check_types': lambda c: check_types.check_types(c),
    'check_no_custom_objects': lambda c: no_custom_objects.check_no_custom_objects(c),
    'check_baseline_style': lambda c: baseline_style.check_baseline_style(c),
    'new_codegen': lambda c: new_codegen.new_codegen(c),
    'auto_config_codegen': lambda c: experimental_top_level_api.auto_config_codegen(c),
    'new_codegen_sub_fixtures': lambda c: new_codegen.new_codegen(c, sub_fixtures=_direct_children(c)),
    'auto_config_codegen_sub_fixtures': lambda c: experimental_top_level_api.auto_config_codegen(
        c, sub_fixtures=_direct_children(c)),
    'codegen_dot_syntax': lambda c: legacy_codegen.codegen_dot_syntax(c),
    'select_iter': lambda c: list(selectors.select(c, things.f2, check_nonempty=False)),
    'select_get': lambda c: list(selectors.select(c, things.Base, check_nonempty=False).get('y')),
    'select_tag_iter': lambda c: list(selectors.select(c, tag=vtags.TagA, check_nonempty=False)),
    'grep': lambda c: fgrep.grep(c, 'uid'),
    'cast': lambda c: fdl.cast(fdl.Partial, c),
    'copy_with': lambda c: fdl.copy_with(c, **{_p(c): 'new'}),
    'deepcopy_with': lambda c: fdl.deepcopy_with(c, **{_p(c): 'new'}),
    'deepcopy_with_tagged': lambda c: fdl.deepcopy_with(c, **{_p(c): vtags.TagX.new('new')}),
    'copy_with_tagged': lambda c: fdl.copy_with(c, **{_p(c): vtags.TagX.new('new')}),
    'materialize_tags': lambda c: tagging.materialize_tags(c),
    'materialize_tags_set': lambda c: tagging.materialize_tags(c, tags={vtags.TagA, vtags.TagB}),
    'materialize_tags_clear': lambda c: tagging.materialize_tags(c, clear_field_tags=True),
    'clear_argument_history': lambda c: serialization.clear_argument_history(c),
    'trimmed': lambda c: visualize.trimmed(c, _first_b(c)[1:3]),
    'with_defaults_trimmed': lambda c: visualize.with_defaults_trimmed(c),
    'with_defaults_trimmed_deep': lambda c: visualize.with_defaults_trimmed(c, remove_deep_defaults=True),
    'structure': lambda c: visualize.structure(c),
    'trim_fields_to': lambda c: visualize.trim_fields_to(c, ['x'], fields_by_config_id={id(b): ['y'] for b in _first_b(c)[1:3]}),
    'trim_long_fields': lambda c: visualize.trim_long_fields(c, threshold=20),
    'depth_over': lambda c: visualize.depth_over(c, 1),
    'unintern_tuples_of_literals': lambda c: transform.unintern_tuples_of_literals(c),
    'replace_unconfigured_partials': lambda c: transform.replace_unconfigured_partials_with_callables(c),
    'list_tags': lambda c: tagging.list_tags(c, add_superclasses=True),
    'get_tags': lambda c: tagging.get_tags(c, _p(c)),
    'ordered_arguments': lambda c: fdl.ordered_arguments(c, include_defaults=True, include_unset=True),
}
API_NAMES = sorted(APIS)


def _clear_tags_on_unset(c):
  """Input preparation for the code generators (their documented precondition: every tagged
  argument has a value)."""
  for b in _first_b(c):
    for k in list(b.__argument_tags__):
      if k not in b.__arguments__ and b.__argument_tags__[k]:
        tagging.clear_tags(b, k)


PREP = {name: _clear_tags_on_unset for name in APIS if 'codegen' in name}


@st.composite
def strategy_(draw, tier):
  recipe = draw(dags.dag(
      max_nodes=9, min_nodes=3, tags=True, bts=('Config', 'Config', 'Partial'),
      kinds=['B', 'B', 'B', 'list', 'tuple', 'dict', 'Bpos', 'TV', 'Bempty', 'ltuple', 'odict',
             # further node kinds of the shared generator that this check's oracle handles (each once)
             'box', 'ddict', 'mdict', 'kdict', 'set', 'fset', 'ntuple', 'nt', 'Bann', 'Bmut', 'Bmut1', 'Bmutnest', 'Bpo', 'Bpo3', 'Bdc', 'AFP', 'holder', 'dcinst', 'Bdictcfg'],
      fns=['things:f2', 'things:h1', 'things:Base', 'things:mutdef', 'things:mutating'],
      root_kinds=['B'], p_alias=0.8, allow_copyof=False))
  # a long value somewhere
  if draw(st.floats(0, 1)) < 0.6:
    bn = [nd for nd in recipe['nodes'] if nd['k'] == 'B' and nd['fn']['name'] in ('things:f2', 'things:Base')]
    if bn:
      draw(st.sampled_from(bn))['kw']['y'] = {'leaf': LONG}
  api = draw(st.sampled_from(API_NAMES + ['build'] * 3 + ['new_codegen_sub_fixtures'] * 3))
  if draw(st.sampled_from(range(4))) == 0 or (api in ('trim_long_fields', 'graphviz.render_max_str') and draw(st.booleans())):
    # a long value two levels inside a container argument of a new root
    nodes = recipe['nodes']
    shape = draw(st.sampled_from(['list-list', 'dict-list', 'list-dict', 'tuple-list']))
    inner = {'k': 'dict', 'keys': ['k'], 'items': [{'leaf': LONG}]} if shape == 'list-dict' else \
        {'k': 'list', 'items': [{'leaf': 'short'}, {'leaf': LONG}]}
    nodes.append(inner)
    ii = len(nodes) - 1
    outer = {'k': 'dict', 'keys': ['o'], 'items': [ii]} if shape == 'dict-list' else \
        {'k': 'tuple' if shape == 'tuple-list' else 'list', 'items': [ii, {'leaf': 1}]}
    nodes.append(outer)
    nodes.append({'k': 'B', 'bt': 'Config', 'fn': {'kind': 'sym', 'name': 'things:h1'}, 'pos': [],
                  'kw': {'a': {'leaf': 'uidW'}, 'b': recipe['root'], 'c': len(nodes) - 1,
                         **({'d': ii} if draw(st.booleans()) else {})}, 'edits': []})
    recipe['root'] = len(nodes) - 1
  if api == 'build' and draw(st.booleans()):
    # a callable that modifies its container argument in place, given a Buildable-free container
    nodes = recipe['nodes']
    leaf = lambda: {'leaf': draw(leaves.leaf('plain'))}
    if draw(st.booleans()):
      nodes.append({'k': 'list', 'items': [leaf() for _ in range(draw(st.integers(0, 3)))]})
    else:
      nodes.append({'k': 'dict', 'keys': ['k0', 'k1'][:draw(st.integers(0, 2))], 'items': []})
      nodes[-1]['items'] = [leaf() for _ in nodes[-1]['keys']]
    ci = len(nodes) - 1
    if draw(st.booleans()):
      nodes.append({'k': 'list', 'items': [ci, leaf()]})
      ci += 1
    nodes.append({'k': 'B', 'bt': 'Config', 'fn': {'kind': 'sym', 'name': 'things:mutating'}, 'pos': [],
                  'kw': {'x': {'leaf': 'uidM'}, 'child': ci}, 'edits': []})
    nodes.append({'k': 'B', 'bt': 'Config', 'fn': {'kind': 'sym', 'name': 'things:h1'}, 'pos': [],
                  'kw': {'a': {'leaf': 'uidR'}, 'b': recipe['root'], 'c': len(nodes) - 1,
                         **({'d': ci} if draw(st.booleans()) else {})}, 'edits': []})
    recipe['root'] = len(nodes) - 1
  if api.startswith('with_defaults_trimmed') and draw(st.booleans()):
    # round 8: a node whose first default-equal argument is a shared mutable container (cannot be
    # trimmed) and whose later argument equals its default and can be trimmed (both orders)
    nodes = recipe['nodes']
    nodes.append({'k': 'list', 'items': [{'leaf': 'single-default'}], '_eqdef': True})
    li = len(nodes) - 1
    kw = {'a': li, 'other': {'leaf': None}} if draw(st.booleans()) else {'other': {'leaf': None}, 'a': li}
    nodes.append({'k': 'B', 'bt': 'Config', 'fn': {'kind': 'sym', 'name': 'things:mutdef1'}, 'pos': [], 'kw': kw, 'edits': []})
    nodes.append({'k': 'B', 'bt': 'Config', 'fn': {'kind': 'sym', 'name': 'things:h1'}, 'pos': [],
                  'kw': {'a': {'leaf': 'uidD'}, 'b': recipe['root'], 'c': len(nodes) - 1, 'd': li}, 'edits': []})
    recipe['root'] = len(nodes) - 1
  if api.startswith('graphviz.render_diff_trim') and draw(st.booleans()):
    # a dict-subclass leaf (not traversed by daglish) directly under the root
    nodes = recipe['nodes']
    root = nodes[recipe['root']]
    if root['k'] == 'B' and root['fn'].get('name') in dags.SIMPLE:
      nodes.insert(recipe['root'], {'k': 'odict', 'keys': ['warmup', 'decay'], 'vals': [10, {'$f': '0.5'}]})
      oi = recipe['root']
      recipe['root'] += 1
      root['kw'][dags.SIMPLE[root['fn']['name']][1][-1]] = oi
  if api.endswith('_sub_fixtures') and draw(st.booleans()):
    # a node with a tagged, valued argument shared by two sub-fixtures (the root's arguments)
    nodes = recipe['nodes']
    mk = lambda fn, **kw: {'k': 'B', 'bt': 'Config', 'fn': {'kind': 'sym', 'name': fn}, 'pos': [], 'kw': kw, 'edits': []}
    s_node = mk('things:f2', x={'leaf': 'uidS'}, y={'leaf': draw(st.integers(0, 9))})
    s_node['tags'] = [['y', draw(st.sampled_from(['TagA', 'TagX']))]]
    inner = draw(st.sampled_from(['none', 'B', 'list', 'dict']))
    if inner != 'none':
      # the shared node itself holds a Buildable / a list / a dict
      nodes.append(mk('things:Base', x={'leaf': 'uidC'}))
      if inner == 'list':
        nodes.append({'k': 'list', 'items': [len(nodes) - 1, {'leaf': 1}]})
      elif inner == 'dict':
        nodes.append({'k': 'dict', 'keys': ['k'], 'items': [len(nodes) - 1]})
      s_node['kw']['child'] = len(nodes) - 1
    nodes.append(s_node)
    si = len(nodes) - 1
    nodes.append(mk('things:f2', x={'leaf': 'uidL'}, child=si))
    nodes.append(mk('things:Base', x={'leaf': 'uidR'}, child=si))
    kw = {'a': {'leaf': 'uidT'}, 'b': si + 1, 'c': si + 2}
    if draw(st.booleans()):
      kw['d'] = recipe['root']
    nodes.append(mk('things:h1', **kw))
    recipe['root'] = len(nodes) - 1
  return {'recipe': recipe, 'api': api}


def strategy(tier):
  return strategy_(tier)


def ident_map(root):
  out = {}
  for p, v in C.walk(root):
    if not C.is_internable(v):
      out[repr(p)] = id(v)
  return out


def check(case):
  out = Outcome()
  snapshot = list(things._MUTABLE_DEFAULT)  # pylint: disable=protected-access
  try:
    return _check(case, out)
  finally:
    things._MUTABLE_DEFAULT[:] = snapshot  # pylint: disable=protected-access


def _check(case, out):
  root, _ = dags.build(case['recipe'])
  api = case['api']
  idn = C.identity_nodes(root)
  sharing = any(len(ps) > 1 for _, ps in idn.values())
  has_tags = any(isinstance(v, fdl.Buildable) and any(v.__argument_tags__.values()) for _, v in C.walk(root))
  long_value = any(isinstance(v, str) and len(v) > 60 for _, v in C.walk(root))
  if sharing:
    out.cls('sharing')
  if has_tags:
    out.cls('has_tags')
  if long_value:
    out.cls('long_value')
  out.cls('api_' + api)
  out.nontrivial = sharing and has_tags and long_value
  if api in PREP:
    PREP[api](root)
  before = C.canon(root)
  ids_before = ident_map(root)
  pins = [v for _, v in C.walk(root)]
  vuni.reset_log()
  try:
    APIS[api](root)
    raised = None
  except Exception as e:  # pylint: disable=broad-except
    raised = e
    out.cls('api_raised')
  after = C.canon(root)
  if after != before:
    out.add('input-modified', 'raised' if raised is not None else 'returned', '', api,
            f'before {str(before)[:700]}\nafter  {str(after)[:700]}')
    return out
  if ident_map(root) != ids_before:
    out.add('input-objects-replaced', 'identity', '', api, '')
  return out
