"""C05 — a failing callable surfaces faithfully and leaves no residue."""

import fiddle as fdl
from hypothesis import strategies as st

from harness import canon as C
from harness import refmodel as R
from harness.gen import dags
from harness.runner import Outcome, exc_kind, fiddle_frame
import harness.vuni as vuni
from harness.vuni import boxes, things  # pylint: disable=unused-import

RULE = (
    'Generated: a DAG recipe (as in C02: aliasing, containers, Box nodes) in which one '
    'generated Config node is the failing node (callable raises an exception from a generated '
    'family: plain, custom __init__, __str__ override, __slots__, keyword-only constructor, '
    'custom __new__, un-subclassable, class created at raise time, KeyError, OSError, UnicodeDecodeError, StopIteration, '
    'ExceptionGroup, SystemExit, BaseException subclass; optionally an argument whose repr '
    'raises Exception/BaseException), optionally nodes whose callable attempts 1-3 nested '
    'fdl.build calls swallowing each rejection; then a generated sequence of failing / good '
    'builds. Oracle: escaping exception is an instance of the raised class, str starts with '
    'str(original), the path in the Fiddle context is one of the reference paths to the '
    'failing node, last invocation is the failing one, canonical form (with history) of the '
    'config unchanged, following good build equals the reference evaluator, every nested '
    'build attempt rejected and invokes nothing. Non-trivial: failing node is not the root '
    'and is shared or inside a container; or an exotic family; or >=2 failures in sequence.'
)
RULE += (' ' + 'Round 6: family and hostile value passed positionally (positional-only parameters); the raised exception is one that escaped from an earlier fdl.build of another configuration (already decorated).')
RULE += (' ' + 'Round 3: the failing callable modifies its list/dict argument before raising.')
ASSUMPTIONS = [
    'exceptions whose own __str__ raises are outside the contract',
    'the Fiddle context (path) is required for exception classes whose proxy subclass can be '
    'constructed and whose diagnostic formats without a BaseException; for the others the '
    'original exception passing through unchanged satisfies the property',
    'exactly one failing node per failing build (sibling evaluation order is unspecified)',
]
BUDGET = {'quick': 16 * 400, 'thorough': 16 * 10000}
FLOORS = {'exotic_family': 0.3, 'failing_shared_or_in_container': 0.16, 'nested_build': 0.107, 'two_failures': 0.224}

PLAIN = ['plain', 'valueerror', 'typeerror', 'assertion']
EXOTIC = ['init2', 'strov', 'slots', 'kwonly', 'new', 'final', 'keyerror', 'oserror', 'unicode',
          'stopiteration', 'group', 'systemexit', 'baseexc', 'localclass', 'localclass', 'redecorated',
          'redecorated']
# families for which the Fiddle context must be present
MUST_HAVE_CONTEXT = set(PLAIN) | {'init2', 'strov', 'slots', 'kwonly', 'new', 'keyerror',
                                  'oserror', 'unicode', 'stopiteration', 'localclass', 'redecorated'}


@st.composite
def strategy_(draw, tier):
  recipe = draw(dags.dag(max_nodes=10, allow_copyof=False,
                         fns=['things:f2', 'things:h1', 'things:Base'],
                         kinds=['B', 'B', 'B', 'list', 'tuple', 'dict', 'nt', 'box']))
  reach = set()
  stack = [recipe['root']]
  while stack:
    i = stack.pop()
    if i in reach:
      continue
    reach.add(i)
    nd = recipe['nodes'][i]
    for r in list(nd.get('items', [])) + list(nd.get('kw', {}).values()) + list(nd.get('pos', [])):
      if isinstance(r, int):
        stack.append(r)
  b_nodes = [i for i, nd in enumerate(recipe['nodes']) if nd['k'] == 'B' and i in reach]
  if not b_nodes:
    recipe['nodes'].append({'k': 'B', 'bt': 'Config', 'fn': {'kind': 'sym', 'name': 'things:f2'},
                            'pos': [], 'kw': {'x': {'leaf': 'uidX'}}, 'edits': []})
    prev_root = recipe['root']
    b_nodes = [len(recipe['nodes']) - 1]
    recipe['nodes'][-1]['kw']['child'] = prev_root
    recipe['root'] = b_nodes[0]
  fi = draw(st.sampled_from(b_nodes))
  family = draw(st.sampled_from(PLAIN + EXOTIC + EXOTIC))
  nd = recipe['nodes'][fi]
  kw = {}
  old = nd['kw']
  kw['x'] = {'leaf': 'uid-failing'}
  kw['family'] = {'leaf': family}
  for k in ('child', 'y'):
    if k in old:
      kw[k] = old[k]
    elif 'c' in old and k == 'child':
      kw[k] = old['c']
  bad = draw(st.sampled_from([None, None, None, 'things:BAD_REPR', 'things:BAD_REPR_BASE']))
  if bad:
    kw['bad'] = {'leaf': {'$sym': bad}}
  nd['fn'] = {'kind': 'sym', 'name': 'things:raiser'}
  nd['kw'] = kw
  if draw(st.sampled_from(range(3))) == 0:
    # the family and the hostile value are passed positionally (positional-only parameters)
    nd['fn'] = {'kind': 'sym', 'name': 'things:raiser_po'}
    nd['pos'] = [kw.pop('family')] + ([kw.pop('bad')] if bad else [])
    recipe['positional'] = True
  # nested-build nodes
  for i in b_nodes:
    if i != fi and draw(st.floats(0, 1)) < 0.2:
      n2 = recipe['nodes'][i]
      old = n2['kw']
      kw2 = {'x': {'leaf': f'uid-nester{i}'}, 'attempts': {'leaf': draw(st.integers(1, 3))}}
      if 'child' in old:
        kw2['child'] = old['child']
      n2['fn'] = {'kind': 'sym', 'name': 'things:nester'}
      n2['kw'] = kw2
  ops = draw(st.lists(st.sampled_from(['bad', 'bad', 'good']), min_size=1, max_size=5))
  recipe['failing'] = fi
  recipe['family'] = family
  recipe['bad'] = bad
  recipe['ops'] = ops
  return recipe


def strategy(tier):
  return strategy_(tier)


def path_code(path):
  out = ''
  for kind, k in path:
    if kind == 'a':
      out += f'.{k}'
    elif kind in ('i', 'bi'):
      out += f'[{k}]'
    elif kind == 'k':
      out += f'[{k!r}]'
    elif kind == 'box':
      out += f'.items[{k}][0]'
  return out


def check(case):
  out = Outcome()
  root, objs = dags.build(case)
  failing = objs[case['failing']]
  family = case['family']
  things.NESTED_TARGET = fdl.Config(things.ident, x='nested-target')
  paths = [p for p, v in C.walk(root) if v is failing]
  if not paths:
    out.skipped = 'failing-node-unreachable'
    return out
  has_nester = any(nd.get('fn', {}).get('name') == 'things:nester' for nd in case['nodes'])
  nester_reachable = any(isinstance(v, fdl.Buildable) and v.__fn_or_cls__ is things.nester
                         for _, v in C.walk(root))
  shared_or_contained = len(paths) > 1 or any(p and p[-1][0] in ('i', 'k', 'box') for p in paths) \
      or any(any(pe[0] in ('i', 'k', 'box') for pe in p) for p in paths)
  exotic = family in EXOTIC or bool(case.get('bad'))
  nbad = sum(1 for o in case['ops'] if o == 'bad')
  if exotic:
    out.cls('exotic_family')
  if shared_or_contained and failing is not root:
    out.cls('failing_shared_or_in_container')
  if nester_reachable:
    out.cls('nested_build')
  if nbad >= 2:
    out.cls('two_failures')
  out.cls('family_' + family)
  out.nontrivial = bool((failing is not root and shared_or_contained) or exotic or nbad >= 2)
  feature = family + (':' + case['bad'].split(':')[1] if case.get('bad') else '')
  if case.get('positional'):
    out.cls('positional_failing_args')
  valid_paths = {path_code(p) for p in paths}

  before = C.canon(root, history=True)
  for oi, op in enumerate(case['ops']):
    things.RAISE_ENABLED = True
    if op == 'bad' and family == 'redecorated':
      # a failure of another configuration, caught earlier (it names a path of *that* configuration)
      pre = fdl.Config(things.h1, e={'pre': [fdl.Config(things.raiser, x='pre', family='valueerror')]})
      try:
        fdl.build(pre)
      except ValueError as e:
        things.PRESET_EXC[0] = e
    things.RAISE_ENABLED = (op == 'bad')
    del things.LAST_RAISED[:]
    del things.NESTED_LOG[:]
    vuni.reset_log()
    if op == 'good':
      try:
        expected = R.ref_build(root)
      except Exception as e:  # pylint: disable=broad-except
        out.skipped = 'reference-raised-on-good-build:' + type(e).__name__
        things.RAISE_ENABLED = True
        return out
      del things.NESTED_LOG[:]
      vuni.reset_log()
      try:
        built = fdl.build(root)
      except Exception as e:  # pylint: disable=broad-except
        out.add('good-build-after-failure-raises', exc_kind(e), fiddle_frame(e), feature,
                f'op {oi}: {e!r}')
        break
      if C.canon(built) != C.canon(expected):
        out.add('good-build-after-failure-differs', 'mismatch', '', feature, f'op {oi}')
        break
    else:
      try:
        fdl.build(root)
        escaped = None
      except BaseException as e:  # pylint: disable=broad-except
        escaped = e
      log = list(vuni.LOG)
      raised_by_us = things.LAST_RAISED[-1] if things.LAST_RAISED else None
      if escaped is None:
        out.add('failing-build-returned', 'returned', '', feature, f'op {oi}')
        break
      if raised_by_us is None:
        # something failed before our raiser ran (e.g. nested build surfaced): judge separately
        out.add('build-failed-before-failing-node', exc_kind(escaped), fiddle_frame(escaped),
                feature, f'op {oi}: {escaped!r}')
        break
      if not isinstance(escaped, type(raised_by_us)):
        out.add('escaped-exception-not-instance-of-original-class', exc_kind(escaped),
                fiddle_frame(escaped), feature,
                f'op {oi}: raised {type(raised_by_us).__name__}, escaped {escaped!r}')
        break
      try:
        s_orig, s_esc = str(raised_by_us), str(escaped)
      except BaseException as e:  # pylint: disable=broad-except
        out.add('str-of-escaped-exception-raises', exc_kind(e), '', feature, f'op {oi}')
        break
      if not s_esc.startswith(s_orig):
        out.add('message-does-not-start-with-original', 'mismatch', '', feature,
                f'op {oi}: original {s_orig!r} escaped {s_esc!r}')
        break
      if s_esc.count('Fiddle context:') > s_orig.count('Fiddle context:'):
        try:
          # the paragraph this build appended is the last one
          seg = s_esc.rsplit(' at <root>', 1)[1].split(' with positional arguments:', 1)[0]
        except IndexError:
          seg = None
        if seg is None or seg not in valid_paths:
          out.add('context-path-does-not-lead-to-failing-node', 'mismatch', '', feature,
                  f'op {oi}: path {seg!r} not in {sorted(valid_paths)}')
          break
      elif family in MUST_HAVE_CONTEXT and case.get('bad') != 'things:BAD_REPR_BASE':
        out.add('fiddle-context-missing', 'mismatch', '', feature,
                f'op {oi}: escaped {escaped!r} str={s_esc[:200]!r}')
        break
      if not log or log[-1].fn != 'raiser':
        out.add('callable-invoked-after-failing-one', 'order', '', feature,
                f'op {oi}: log tail {[r.fn for r in log[-3:]]}')
        break
    # nested build attempts (both kinds of op)
    if any(e == 'returned' for e in things.NESTED_LOG):
      out.add('nested-build-not-rejected', 'returned', '', feature,
              f'op {oi}: attempts {things.NESTED_LOG}')
      break
    if any(r.fn == 'ident' and r.bound.get('x') == 'nested-target' for r in vuni.LOG):
      out.add('nested-build-invoked-callable', 'invoked', '', feature, f'op {oi}')
      break
    after = C.canon(root, history=True)
    if after != before:
      out.add('configuration-modified', 'mismatch', '', feature, f'op {oi} ({op})')
      break
  things.RAISE_ENABLED = True
  # the in-build flag must be clear: a trivial build must work
  try:
    fdl.build(fdl.Config(things.ident, x=1))
  except Exception as e:  # pylint: disable=broad-except
    out.add('build-guard-left-set', exc_kind(e), fiddle_frame(e), feature, repr(e))
  return out
