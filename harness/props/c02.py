"""C02 — one invocation per Buildable instance; built graph mirrors config graph."""

import collections

import fiddle as fdl
from hypothesis import strategies as st

from harness import canon as C
from harness import refmodel as R
from harness.gen import dags
from harness.runner import Outcome, exc_kind, fiddle_frame
import harness.vuni as vuni
from harness.vuni import boxes  # registers the Box traverser  pylint: disable=unused-import
from harness.vuni import things

RULE = (
    'Generated: DAG recipes of fdl.Config nodes (functions and classes), lists, tuples, dicts, '
    'named tuples and Box nodes (user-registered node type whose flatten creates temporary '
    'lists) with explicit aliasing: earlier nodes referenced again (diamonds, shared '
    'containers, same node in several containers / depths), equal-but-distinct copies, chains '
    'up to depth 100 (thorough). Every Config carries a unique uid argument. Oracle: invocation '
    'log (exactly one call per distinct instance, after all its dependencies), path-wise '
    'identity relation cfg@p is cfg@q <=> built@p is built@q, no identity-bearing object shared '
    'by two separate builds, canonical form equal to that of the reference evaluator. '
    'Non-trivial: >=1 alias and >=1 equal-but-distinct pair, or a Box, or depth >= 50. '
    'Distinct = distinct SHA-1 of the recipe JSON.'
)
RULE += (' ' + 'Rounds 3-5: **kwargs callables with a rejected update_callable in their history; constant tuples referenced twice (same tuple object => same built object); a node type registered after a build already saw it unregistered.')
RULE += (' ' + 'Round 7: NaN leaves (a Buildable holding one is not equal to itself, yet it is one instance).')
RULE += (' ' + 'Round 6: chains of 60-420 levels (around and beyond the recursion budget) placed after other nodes: whether fdl.build returns or raises RecursionError, no instance is invoked twice in that one call.')
RULE += (' ' + 'Round 8: callables that attempt nested fdl.build calls (1-3 each, all rejected) of a config the outer root also reaches: still one invocation per instance and one built object.')
ASSUMPTIONS = [
    'reference evaluator refmodel.ref_build (identity memo, pins keys)',
    'id reuse by the allocator is made likely by Box temporaries, not certain',
    'internable values (ints, strings, tuples of literals) are outside the sharing clauses',
]
BUDGET = {'quick': 16 * 500, 'thorough': 16 * 12000}
FLOORS = {'alias': 0.3, 'copyof': 0.15, 'box': 0.15}


@st.composite
def strategy_(draw, tier):
  if draw(st.sampled_from(range(25))) == 0:
    return {'late_registration': True, 'probe_first': draw(st.booleans()), 'n_items': draw(st.integers(1, 3))}
  if draw(st.sampled_from(range(25))) == 2:
    # round 8: callables that attempt nested fdl.build calls of a config the outer root also
    # reaches (each attempt is rejected; nothing is invoked twice)
    return {'nested_attempts': True, 'attempts': draw(st.integers(1, 3)), 'nesters': draw(st.integers(1, 2)),
            'shared_first': draw(st.booleans())}
  if draw(st.sampled_from(range(25))) == 1:
    # a chain deeper than the interpreter's recursion budget, visited after some other nodes
    return {'over_budget': True, 'depth': draw(st.integers(60, 420)), 'early': draw(st.integers(1, 3)),
            'deep_slot': draw(st.sampled_from(['c', 'e'])), 'share_early': draw(st.booleans())}
  mode = draw(st.sampled_from(['dag', 'dag', 'dag', 'boxes', 'chain'] if tier == 'thorough'
                               else ['dag', 'dag', 'dag', 'boxes', 'boxes', 'chain']))
  if mode == 'dag':
    recipe = draw(dags.dag(max_nodes=14, leaf_profile='plain_nan', kinds=['B', 'B', 'B', 'list', 'list', 'tuple', 'dict', 'nt', 'box', 'TV', 'ltuple'],
                           fns=['things:f2', 'things:h1', 'things:Base', 'things:LeafCls', 'things:Other', 'things:kwf']))
    for nd in recipe['nodes']:
      if nd['k'] == 'B' and nd['fn'].get('name') == 'things:kwf' and draw(st.booleans()):
        # history: a rejected fdl.update_callable (the **kwargs entries do not fit things.ident)
        nd['edits'] = nd.get('edits', []) + [['try_update_callable', 'things:ident']]
    return recipe
  if mode == 'boxes':
    # many boxes with distinct configs: provokes id reuse of flatten temporaries
    n = draw(st.integers(5, 40))
    nodes = []
    for i in range(n):
      nodes.append({'k': 'B', 'bt': 'Config', 'fn': {'kind': 'sym', 'name': 'things:f2'},
                    'pos': [], 'kw': {'x': {'leaf': f'uid{i}'}}, 'edits': []})
    box_ids = []
    for i in range(n):
      items = [i]
      if draw(st.booleans()):
        items.append(draw(st.integers(0, n - 1)))
      nodes.append({'k': 'box', 'items': items})
      box_ids.append(len(nodes) - 1)
    nodes.append({'k': 'list', 'items': box_ids})
    return {'nodes': nodes, 'root': len(nodes) - 1}
  depth = draw(st.integers(2, 100 if tier == 'thorough' else 60))
  nodes = [{'k': 'B', 'bt': 'Config', 'fn': {'kind': 'sym', 'name': 'things:f2'}, 'pos': [],
            'kw': {'x': {'leaf': 'uid0'}}, 'edits': []}]
  for i in range(1, depth):
    kw = {'x': {'leaf': f'uid{i}'}, 'child': i - 1}
    if i >= 2 and draw(st.floats(0, 1)) < 0.2:
      kw['y'] = draw(st.integers(0, i - 2))
    nodes.append({'k': 'B', 'bt': 'Config', 'fn': {'kind': 'sym', 'name': 'things:f2'}, 'pos': [],
                  'kw': kw, 'edits': []})
  return {'nodes': nodes, 'root': len(nodes) - 1, 'depth': depth}


def strategy(tier):
  return strategy_(tier)


class TooBig(Exception):
  pass


def _received(recobj, cfg, key):
  """The object the callee received for the argument stored under `key` (name, positional index,
  *args index or **kwargs name)."""
  if isinstance(key, str):
    return recobj.bound[key] if key in recobj.bound else recobj.varkw[key]
  from harness.gen import recipes
  info = recipes.ParamInfo(cfg.__fn_or_cls__)
  if key < info.npos:
    return recobj.bound[info.positional[key]]
  return recobj.varargs[key - info.npos]


def walk_pairs(cfg, built, limit=30000):
  """Parallel un-memoized walk of config and built graph: yields (path, c, b)."""
  count = [0]

  def rec(c, b, path):
    count[0] += 1
    if count[0] > limit:
      raise TooBig()
    yield path, c, b
    if type(c).__name__ == 'TaggedValueCls':
      yield from rec(c.__arguments__['value'], b, path + (('a', 'value'),))
    elif isinstance(c, fdl.Buildable):
      recobj = b.__vrec__ if hasattr(b, '__vrec__') else b
      if not isinstance(recobj, vuni.Rec):
        raise AssertionError(f'built value at {path} is not a Rec: {b!r}')
      for k in C._ordered_keys(c):  # pylint: disable=protected-access
        yield from rec(c.__arguments__[k], _received(recobj, c, k), path + (('a', k),))
    elif isinstance(c, boxes.Box):
      if not isinstance(b, boxes.Box) or len(b.items) != len(c.items):
        raise AssertionError(f'built Box mismatch at {path}: {b!r}')
      for i, (ci, bi) in enumerate(zip(c.items, b.items)):
        yield from rec(ci, bi, path + (('box', i),))
    elif isinstance(c, (list, tuple)):
      if type(b) is not type(c) or len(b) != len(c):
        raise AssertionError(f'built container mismatch at {path}: {b!r} vs {c!r}')
      for i, (ci, bi) in enumerate(zip(c, b)):
        yield from rec(ci, bi, path + (('i', i),))
    elif isinstance(c, dict):
      if type(b) is not type(c) or list(b.keys()) != list(c.keys()):
        raise AssertionError(f'built dict mismatch at {path}: {b!r} vs {c!r}')
      for k in c:
        yield from rec(c[k], b[k], path + (('k', k),))

  yield from rec(cfg, built, ())


_LATE = [0]


def check_late_registration(case, out):
  """History: a build sees instances of a type while it is unregistered (opaque), the type is
  registered as a daglish node type, then a configuration holding Buildables inside such an
  instance is built: they are invoked once each and sharing with the outside is kept."""
  from fiddle import daglish
  out.cls('late_registration')
  out.nontrivial = True
  _LATE[0] += 1
  cls = type(f'LateBuildNode{_LATE[0]}', (), {})

  def mk(items):
    o = cls()
    o.items = list(items)
    return o

  if case['probe_first']:
    fdl.build(fdl.Config(things.f2, x=mk([1, 2])))
  daglish.register_node_traverser(
      cls, flatten_fn=lambda o: (tuple(o.items), None), unflatten_fn=lambda vals, _: mk(vals),
      path_elements_fn=lambda o: tuple(daglish.Index(i) for i in range(len(o.items))))
  shared = fdl.Config(things.f2, x='shared')
  inner = [fdl.Config(things.Base, x=f'in{i}') for i in range(case['n_items'])]
  node = mk([shared] + inner)
  root = fdl.Config(things.h1, a=node, b=shared, c=[node])
  vuni.reset_log()
  built = fdl.build(root)
  feat = 'probed' if case['probe_first'] else 'fresh'
  n_calls = len(vuni.LOG)
  if n_calls != 2 + case['n_items']:
    out.add('invocation-count', 'mismatch', '', 'late-registration:' + feat,
            f'{n_calls} invocations for {2 + case["n_items"]} distinct Config instances')
    return out
  ba = built.bound['a']
  if type(ba) is not cls or ba is node or any(isinstance(x, fdl.Buildable) for x in ba.items):
    out.add('built-graph-differs-from-reference', 'mismatch', '', 'late-registration:' + feat, repr(ba.__dict__)[:300])
    return out
  if ba.items[0] is not built.bound['b'] or built.bound['c'][0] is not ba:
    out.add('same-config-object-different-built-objects', 'identity', '', 'late-registration:' + feat, '')
  return out


def check_nested_attempts(case, out):
  out.cls('nested_attempts')
  out.nontrivial = True
  shared = fdl.Config(things.f2, x='shared-nested')
  nesters = [fdl.Config(things.nester, x=f'n{i}', attempts=case['attempts']) for i in range(case['nesters'])]
  kw = {'b': shared, 'c': nesters} if case['shared_first'] else {'b': nesters, 'c': shared}
  root = fdl.Config(things.h1, a='root', d=fdl.Config(things.f2, x='user', child=shared), **kw)
  things.NESTED_TARGET = shared
  del things.NESTED_LOG[:]
  vuni.reset_log()
  feat = f'nested-attempts:{case["attempts"]}x{case["nesters"]}'
  try:
    built = fdl.build(root)
  except Exception as e:  # pylint: disable=broad-except
    out.add('build-raises', type(e).__name__, '', feat, repr(e)[:300])
    return out
  finally:
    things.NESTED_TARGET = None
  n_instances = 3 + case['nesters']
  if len(vuni.LOG) != n_instances:
    out.add('invocation-count', 'mismatch', '', feat,
            f'{len(vuni.LOG)} invocations for {n_instances} distinct Config instances; nested attempts: {things.NESTED_LOG}')
    return out
  s_built = built.bound['b'] if case['shared_first'] else built.bound['c']
  if built.bound['d'].bound['child'] is not s_built:
    out.add('same-config-object-different-built-objects', 'identity', '', feat, '')
  return out


def check_over_budget(case, out):
  """Depth around / beyond the recursion budget: fdl.build either returns or raises
  RecursionError; either way no Buildable instance is invoked more than once during that one
  call, and if it returns every instance was invoked exactly once."""
  out.cls('over_budget')
  out.nontrivial = True
  early = [fdl.Config(things.f2, x=f'early{i}') for i in range(case['early'])]
  chain = fdl.Config(things.f2, x='uid0')
  if case['share_early']:
    chain.y = early[0]
  for i in range(1, case['depth']):
    chain = fdl.Config(things.f2, x=f'uid{i}', child=chain)
  root = fdl.Config(things.h1, a=early[0], b=early[1:], **{case['deep_slot']: chain})
  n_instances = case['early'] + case['depth'] + 1
  vuni.reset_log()
  # the budget of a fresh interpreter (1000 frames), whatever the caller's stack depth and whatever
  # limit the test engine installed
  import sys
  here, f = 0, sys._getframe()  # pylint: disable=protected-access
  while f is not None:
    here, f = here + 1, f.f_back
  saved_limit = sys.getrecursionlimit()
  sys.setrecursionlimit(here + 1000)
  try:
    fdl.build(root)
    returned = True
  except RecursionError:
    returned = False
  except Exception as e:  # pylint: disable=broad-except
    out.add('build-raises', exc_kind(e), fiddle_frame(e), 'over-budget', repr(e)[:300])
    return out
  finally:
    sys.setrecursionlimit(saved_limit)
  out.cls('over_budget_returned' if returned else 'over_budget_recursion_error')
  counts = collections.Counter((r.fn, r.bound.get('x') if r.fn == 'f2' else None) for r in vuni.LOG)
  twice = sorted(str(k) for k, n in counts.items() if n > 1)
  if twice:
    out.add('invocation-count', 'mismatch', '', 'over-budget',
            f'invoked more than once in one fdl.build (returned={returned}): {twice[:6]}')
    return out
  if returned and len(vuni.LOG) != n_instances:
    out.add('invocation-count', 'mismatch', '', 'over-budget',
            f'{len(vuni.LOG)} invocations for {n_instances} distinct Config instances')
  # the next build works normally
  try:
    fdl.build(fdl.Config(things.ident, x=1))
  except Exception as e:  # pylint: disable=broad-except
    out.add('build-raises', exc_kind(e), fiddle_frame(e), 'after-over-budget', repr(e)[:300])
  return out


def check(case):
  out = Outcome()
  if case.get('late_registration'):
    return check_late_registration(case, out)
  if case.get('over_budget'):
    return check_over_budget(case, out)
  if case.get('nested_attempts'):
    return check_nested_attempts(case, out)
  root, objs = dags.build(case)
  stats = dags.recipe_stats(case)
  if stats['aliases']:
    out.cls('alias')
  if stats['copyof']:
    out.cls('copyof')
  if stats['boxes']:
    out.cls('box')
  if stats['tvs']:
    out.cls('tagged_value_in_container')
  depth = case.get('depth', 0)
  if depth >= 50:
    out.cls('deep')
  out.nontrivial = bool((stats['aliases'] and stats['copyof']) or stats['boxes'] or depth >= 50)
  feature = 'box' if stats['boxes'] else ('deep' if depth >= 50 else 'dag')

  instances = {}
  for v in objs:
    pass
  try:
    for p, v in C.walk(root):
      if isinstance(v, fdl.Buildable) and type(v).__name__ != 'TaggedValueCls':
        instances.setdefault(id(v), v)
  except RecursionError:
    out.skipped = 'walk-recursion'
    return out
  n_instances = len(instances)

  vuni.reset_log()
  try:
    expected = R.ref_build(root)
  except (R.RefRaised, R.CannotFormCall, RecursionError) as e:
    out.skipped = 'reference-raised:' + type(e).__name__
    return out
  vuni.reset_log()
  try:
    built = fdl.build(root)
  except RecursionError:
    out.skipped = 'build-recursion'
    return out
  except Exception as e:  # pylint: disable=broad-except
    out.add('build-raises', exc_kind(e), fiddle_frame(e), feature, repr(e))
    return out
  log = list(vuni.LOG)

  # (a) exactly one invocation per distinct instance
  if len(log) != n_instances:
    out.add('invocation-count', 'mismatch', '', feature,
            f'{len(log)} invocations for {n_instances} distinct Config instances')
    return out
  # (e) canonical form incl. sharing equals reference
  ce, cb = C.canon(expected), C.canon(built)
  if ce != cb:
    out.add('built-graph-differs-from-reference', 'mismatch', '', feature,
            f'expected {str(ce)[:700]}\nactual   {str(cb)[:700]}')
    return out
  # (b),(c): parallel walk
  try:
    c2b, b2c, t2b = {}, {}, {}
    order = {id(r): i for i, r in enumerate(log)}
    pins = []
    for path, c, b in walk_pairs(root, built):
      if type(c).__name__ == 'TaggedValueCls':
        continue
      if isinstance(c, fdl.Buildable):
        recobj = b.__vrec__ if hasattr(b, '__vrec__') else b
        my = order.get(id(recobj))
        if my is None:
          out.add('built-object-not-from-this-build', 'mismatch', '', feature, str(path))
          return out
        for k in C._ordered_keys(c):  # pylint: disable=protected-access
          ch = c.__arguments__[k]
          if isinstance(ch, fdl.Buildable):
            chb = _received(recobj, c, k)
            chrec = chb.__vrec__ if hasattr(chb, '__vrec__') else chb
            if order.get(id(chrec), 10**9) > my:
              out.add('dependency-built-after-dependent', 'order', '', feature, str(path))
              return out
      if C.is_internable(c):
        if type(c) is tuple and c:
          # one tuple object referenced several times is built into one tuple object (the converse,
          # distinct-but-equal constant tuples staying distinct, is not judged: Python may intern them)
          pins.append((c, b))
          t2b.setdefault(id(c), set()).add(id(b))
        continue
      pins.append((c, b))
      c2b.setdefault(id(c), set()).add(id(b))
      b2c.setdefault(id(b), set()).add(id(c))
    if any(len(s) > 1 for s in c2b.values()):
      out.add('same-config-object-different-built-objects', 'identity', '', feature, '')
    if any(len(s) > 1 for s in t2b.values()):
      out.add('same-constant-tuple-different-built-objects', 'identity', '', feature, '')
    if any(len(s) > 1 for s in b2c.values()):
      out.add('distinct-config-objects-same-built-object', 'identity', '', feature, '')
  except TooBig:
    out.cls('walk_too_big')
  except AssertionError as e:
    out.add('built-shape', 'mismatch', '', feature, str(e))
    return out
  # (d) separate builds share nothing identity-bearing
  vuni.reset_log()
  again = fdl.build(root)
  try:
    ids1 = {i for i, (o, _) in C.identity_nodes(built).items()}
    ids2 = {i for i, (o, _) in C.identity_nodes(again).items()}
    if ids1 & ids2:
      out.add('two-builds-share-objects', 'identity', '', feature, f'{len(ids1 & ids2)} shared')
  except RecursionError:
    pass
  return out
