"""C18 — printed paths are valid override paths; flag directives apply in order."""

import ast
import copy
import math

from absl import flags as absl_flags
import fiddle as fdl
from fiddle import daglish
from fiddle import printing
from fiddle._src.absl_flags import flags as fdl_flags
from fiddle._src.absl_flags import utils as flag_utils
from hypothesis import strategies as st

from harness import canon as C
from harness.gen import dags, leaves
from harness.runner import Outcome, exc_kind, fiddle_frame
from harness.vuni import flagsmod, things

RULE = (
    'Generated (three case kinds). paths: DAG recipes in the stated domain (Configs with '
    'keyword arguments, lists, dicts whose keys are quote-free, =-free strings incl. empty, '
    'spaces, dots, brackets, backslashes, newlines, non-ASCII, or non-negative ints; leaves '
    'Python literals incl. nested literal containers and tuples; no override target inside a '
    'tuple); oracle: flattened printers list exactly the reference leaves once each, every '
    'printed path parsed by the flag parser resolves to that leaf, writing path=repr(value) '
    'back leaves the configuration unchanged and writing a different literal changes exactly '
    'what a reference setter changes. flags: a base-config directive (config: with literal '
    'arguments or config_str:) followed by a generated mix of set: and fiddler: directives '
    '(mutating and new-config-returning fiddlers, non-commuting pairs), split over 1-3 parse() '
    'calls with .value reads in between; oracle: sequential application of the same structured '
    'directives in Python; FiddleFlagSerializer round trip. calls: CallExpression.parse of a '
    'rendered name(lit, ..., k=lit) returns exactly name, args, kwargs. Non-trivial: a path '
    'with >=3 elements mixing attribute, string key and index, or a directive sequence with a '
    'set and a fiddler that do not commute.'
)
RULE += (' ' + 'Round 3: a fiddler that stores its list-literal argument by reference, recurring literals, set: into an element.')
ASSUMPTIONS = [
    'domain as stated in the property (quote-free, =-free keys; literal leaves; no targets inside tuples)',
    'values whose repr is not a Python literal (inf, nan) are outside the write-back clause',
]
BUDGET = {'quick': 16 * 500, 'thorough': 16 * 12000}
FLOORS = {'kind_paths': 0.325, 'kind_flags': 0.114, 'mixed_path': 0.032, 'noncommuting': 0.06}

_KEYS = ['', 'k', 'a b', 'x.y', 'a[0]', 'k]', 'back\\slash', 'new\nline', 'tab\t', 'é', 'naïve', '0', 'None',
         'a-b', '#', '[', ' ', 'UPPER', 'under_score', '​']
_literal = st.recursive(
    st.one_of(st.integers(-1000, 1000), st.integers(), st.booleans(), st.none(),
              st.floats(allow_nan=False, allow_infinity=False),
              st.text(max_size=5), st.sampled_from(['false', 'True', "it's", 'a=b', '"q"', 'x\ny']),
              st.binary(max_size=3)),
    lambda c: st.one_of(st.lists(c, max_size=3), st.tuples(c, c),
                        st.dictionaries(st.one_of(st.integers(0, 5), st.text(max_size=3)), c, max_size=2)),
    max_leaves=5)


def _enc_lit(v):
  return repr(v)


@st.composite
def path_case(draw):
  """A recipe built directly (values carried as repr strings of literals)."""
  nodes = []
  n = draw(st.integers(1, 8))
  for i in range(n):
    last = i == n - 1
    kind = 'B' if (last or i == 0) else draw(st.sampled_from(['B', 'B', 'list', 'dict', 'dict']))

    def ref():
      if nodes and draw(st.floats(0, 1)) < 0.6:
        return draw(st.integers(0, len(nodes) - 1))
      return {'lit': _enc_lit(draw(_literal))}

    if kind == 'B':
      fn = draw(st.sampled_from(['things:f2', 'things:h1']))
      params = ['x', 'y', 'child'] if fn == 'things:f2' else ['a', 'b', 'c', 'd', 'e']
      kw = {p: ref() for p in params if draw(st.floats(0, 1)) < 0.6}
      nodes.append({'k': 'B', 'fn': fn, 'kw': kw})
    elif kind == 'list':
      nodes.append({'k': 'list', 'items': [ref() for _ in range(draw(st.integers(0, 3)))]})
    else:
      keys = draw(st.lists(st.one_of(st.sampled_from(_KEYS), st.integers(0, 12),
                                     st.text(alphabet=st.characters(blacklist_characters='\'"=', blacklist_categories=['Cs']), max_size=4)),
                           unique_by=lambda k: (type(k).__name__, k), min_size=1, max_size=3))
      nodes.append({'k': 'dict', 'keys': [_enc_lit(k) for k in keys], 'items': [ref() for _ in keys]})
  return {'kind': 'paths', 'nodes': nodes, 'newlit': _enc_lit(draw(_literal)), 'sel': draw(st.integers(0, 50))}


@st.composite
def flags_case(draw):
  base = draw(st.sampled_from(['base_a', 'base_b']))
  bargs = [draw(st.integers(0, 5))] if base == 'base_a' and draw(st.booleans()) else []
  bkw = {'label': draw(st.sampled_from(['L', 'x y', "q'"]))} if base == 'base_a' and draw(st.booleans()) else {}
  via_str = draw(st.booleans())
  ds = []
  for _ in range(draw(st.integers(0, 7))):
    if draw(st.booleans()):
      if base == 'base_a':
        path = draw(st.sampled_from([[['a', 'a']], [['a', 'b'], ['a', 'y']], [['a', 'b'], ['a', 'x']], [['a', 'c'], ['k', 'k']],
                                     [['a', 'c'], ['k', 'sub'], ['a', 'y']], [['a', 'd'], ['i', 1]], [['a', 'd'], ['i', 0], ['a', 'child']],
                                     [['a', 'e']], [['a', 'b']], [['a', 'c'], ['k', 'new key']],
                                     [['a', 'e'], ['i', 0]], [['a', 'e'], ['i', 1]]]))
      else:
        path = draw(st.sampled_from([[['a', 'x']], [['a', 'y']], [['a', 'child'], ['a', 'a']], [['a', 'child'], ['a', 'c']],
                                     [['a', 'child']], [['a', 'child'], ['i', 0]]]))
      ds.append({'d': 'set', 'path': path, 'lit': _enc_lit(draw(_literal))})
    else:
      name = draw(st.sampled_from(sorted(flagsmod.FIDDLERS)))
      args, kw = [], {}
      if name in ('set_y', 'append_marker', 'with_first') and draw(st.booleans()):
        lit = _enc_lit(draw(st.one_of(st.integers(0, 9), st.text(max_size=3))))
        if draw(st.booleans()):
          args = [lit]
        else:
          kw = {{'set_y': 'value', 'append_marker': 'marker', 'with_first': 'value'}[name]: lit}
      if name == 'store_items':
        # a mutable literal argument; the same expression text tends to recur within and across cases
        lit = _enc_lit(draw(st.sampled_from([[4, 4], [1, 2, 3], [0], []])))
        if draw(st.booleans()):
          args = [lit]
        else:
          kw = {'items': lit}
      ds.append({'d': 'fiddler', 'name': name, 'args': args, 'kw': kw})
  cuts = sorted(draw(st.lists(st.integers(0, len(ds)), max_size=2)))
  return {'kind': 'flags', 'base': base, 'bargs': bargs, 'bkw': bkw, 'via_str': via_str, 'ds': ds, 'cuts': cuts}


@st.composite
def call_case(draw):
  name = '.'.join(draw(st.lists(st.sampled_from(['f', 'mod', 'my_fn', 'A1', '_x']), min_size=1, max_size=3)))
  args = [_enc_lit(draw(_literal)) for _ in range(draw(st.integers(0, 3)))]
  kw = {k: _enc_lit(draw(_literal)) for k in draw(st.lists(st.sampled_from(['a', 'b_c', 'x1', 'value']), unique=True, max_size=3))}
  return {'kind': 'calls', 'name': name, 'args': args, 'kw': kw, 'bare': draw(st.booleans())}


def strategy(tier):
  return st.one_of(path_case(), path_case(), flags_case(), call_case())


# ---------------------------------------------------------------------------


def build_paths(case):
  objs = []

  def deref(r):
    return objs[r] if isinstance(r, int) else ast.literal_eval(r['lit'])

  for nd in case['nodes']:
    if nd['k'] == 'B':
      objs.append(fdl.Config(things.resolve_symbol(nd['fn']), **{k: deref(r) for k, r in nd['kw'].items()}))
    elif nd['k'] == 'list':
      objs.append([deref(r) for r in nd['items']])
    else:
      objs.append({ast.literal_eval(k): deref(r) for k, r in zip(nd['keys'], nd['items'])})
  return objs[-1]


def contains_buildable(v):
  for _, w in C.walk(v):
    if isinstance(w, fdl.Buildable):
      return True
  return False


def ref_leaves(root):
  """(path, value) of every printer leaf: maximal values that contain no Buildable."""
  out = []

  def rec(v, path):
    if not contains_buildable(v):
      out.append((path, v))
      return
    for pe, c in C.children(v):
      rec(c, path + (pe,))

  rec(root, ())
  return out


def render(path):
  s = ''
  for kind, k in path:
    if kind == 'a':
      s += f'.{k}'
    elif kind == 'k':
      s += f'[{k!r}]'
    else:
      s += f'[{k}]'
  return s[1:] if s.startswith('.') else s


def follow_parsed(root, parsed):
  v = root
  for el in parsed:
    if isinstance(el, daglish.Attr):
      v = v.__arguments__[el.name] if isinstance(v, fdl.Buildable) else getattr(v, el.name)
    else:
      v = v[el.key]
  return v


def ref_set(root, path, value):
  v = root
  for kind, k in path[:-1]:
    v = v.__arguments__[k] if kind == 'a' else v[k]
  kind, k = path[-1]
  if kind == 'a':
    setattr(v, k, value)
  else:
    v[k] = value


def _is_literal_repr(v):
  try:
    return C.canon(ast.literal_eval(repr(v))) == C.canon(v)
  except Exception:  # pylint: disable=broad-except
    return False


def check(case):
  out = Outcome()
  out.cls('kind_' + case['kind'])
  if case['kind'] == 'paths':
    return check_paths(case, out)
  if case['kind'] == 'flags':
    return check_flags(case, out)
  return check_calls(case, out)


def check_paths(case, out):
  root = build_paths(case)
  try:
    leaves_ = ref_leaves(root)
  except RecursionError:
    out.skipped = 'deep'
    return out
  if len(leaves_) > 400:
    out.skipped = 'too-many-leaves'
    return out
  mixed = any(len(p) >= 3 and {'a', 'k'} <= {pe[0] for pe in p} and any(pe[0] == 'i' or isinstance(pe[1], int) for pe in p)
              for p, _ in leaves_)
  if mixed:
    out.cls('mixed_path')
  out.nontrivial = mixed
  want = {}
  for p, v in leaves_:
    want.setdefault(render(p), []).append((p, v))
  try:
    d = printing.as_dict_flattened(root)
    text = printing.as_str_flattened(root, include_types=False, raw_value_repr=True)
  except Exception as e:  # pylint: disable=broad-except
    out.add('printer-raises', exc_kind(e), fiddle_frame(e), '', repr(e)[:300])
    return out
  if len(d) != len(leaves_) or set(d) != set(want):
    out.add('as_dict_flattened-leaf-set', 'mismatch', '', '',
            f'printed {sorted(d)[:8]} reference {sorted(want)[:8]} ({len(d)} vs {len(leaves_)})')
    return out
  lines = {}
  for line in text.split('\n') if text else []:
    if ' = ' not in line:
      out.add('as_str_flattened-line-format', 'mismatch', '', '', line[:200])
      return out
    pth, val = line.split(' = ', 1)
    lines.setdefault(pth, []).append(val)
  for pth, items in want.items():
    p, v = items[0]
    if C.canon(d[pth]) != C.canon(v) or (not C.is_internable(v) and d[pth] is not v):
      out.add('as_dict_flattened-wrong-value', 'mismatch', '', '', f'{pth}: {d[pth]!r} vs {v!r}')
      return out
    if lines.get(pth) != [repr(v)]:
      out.add('as_str_flattened-leaf', 'mismatch', '', '', f'{pth!r}: lines {lines.get(pth)} want {repr(v)!r}'[:400])
      return out
    # the printed path is a valid override path resolving to the leaf
    kfeat = _key_feature(p)
    try:
      parsed = flag_utils.parse_path(pth)
      got = follow_parsed(root, parsed)
    except Exception as e:  # pylint: disable=broad-except
      out.add('printed-path-not-parsable-or-resolvable', exc_kind(e), fiddle_frame(e), kfeat,
              f'path {pth!r}: {e!r}'[:300])
      return out
    if got is not v and C.canon(got) != C.canon(v):
      out.add('printed-path-resolves-elsewhere', 'mismatch', '', kfeat, f'path {pth!r}')
      return out
  # write-back on one selected leaf (and identity write-back on all literal leaves)
  base = C.canon(root)
  settable = [(pth, items[0]) for pth, items in sorted(want.items())
              if items[0][0] and _is_literal_repr(items[0][1])]
  for pth, (p, v) in settable:
    cp = copy.deepcopy(root)
    try:
      flag_utils.set_value(cp, f'{pth}={v!r}')
    except Exception as e:  # pylint: disable=broad-except
      out.add('write-back-raises', exc_kind(e), fiddle_frame(e), _key_feature(p), f'{pth}={v!r}: {e!r} / {e.__cause__!r}'[:400])
      return out
    if C.canon(cp, sharing=False) != C.canon(root, sharing=False):
      out.add('write-back-of-same-value-changed-config', 'mismatch', '', _key_feature(p), f'{pth}={v!r}'[:300])
      return out
  if settable:
    pth, (p, v) = settable[case['sel'] % len(settable)]
    newv = ast.literal_eval(case['newlit'])
    cp, cp2 = copy.deepcopy(root), copy.deepcopy(root)
    try:
      flag_utils.set_value(cp, f'{pth}={newv!r}')
    except Exception as e:  # pylint: disable=broad-except
      out.add('write-back-raises', exc_kind(e), fiddle_frame(e), _key_feature(p), f'{pth}={newv!r}: {e!r}'[:300])
      return out
    ref_set(cp2, p, newv)
    if C.canon(cp) != C.canon(cp2):
      out.add('override-changed-something-else', 'mismatch', '', _key_feature(p),
              f'{pth}={newv!r}\ngot  {cp!r}\nwant {cp2!r}'[:900])
      return out
  if C.canon(root) != base:
    out.add('printing-or-override-modified-input', 'mismatch', '', '', '')
  return out


def _key_feature(p):
  fs = set()
  for kind, k in p:
    if kind == 'k' and isinstance(k, str):
      if k == '':
        fs.add('empty-key')
      elif any(c in k for c in '\\\n\t') or not k.isprintable():
        fs.add('escaped-key')
      elif any(c in k for c in '.[] '):
        fs.add('punct-key')
  return ','.join(sorted(fs)) or 'plain-keys'


def _render_directive(d):
  if d['d'] == 'set':
    path = render(tuple((k, v) for k, v in d['path']))
    return f"set:{path}={d['lit']}"
  parts = list(d['args']) + [f'{k}={v}' for k, v in d['kw'].items()]
  return f"fiddler:{d['name']}" + (f"({', '.join(parts)})" if parts or True else '')


def _new_flag():
  return fdl_flags.FiddleFlag(
      name='cfg', default_module=flagsmod, default=None, parser=absl_flags.ArgumentParser(),
      serializer=fdl_flags.FiddleFlagSerializer(), help_string='h')


def check_flags(case, out):
  base_fn = flagsmod.BASES[case['base']]
  bargs = [ast.literal_eval(a) for a in case['bargs']] if case['bargs'] and isinstance(case['bargs'][0], str) else list(case['bargs'])
  bkw = dict(case['bkw'])
  # reference
  ref = base_fn(*bargs, **bkw)
  ref_err = None
  kinds = set()
  seq = []
  for d in case['ds']:
    if ref_err is not None:
      break
    try:
      if d['d'] == 'set':
        kinds.add('set')
        ref_set(ref, tuple((k, v) for k, v in d['path']), ast.literal_eval(d['lit']))
      else:
        kinds.add('fiddler:' + d['name'])
        r = flagsmod.FIDDLERS[d['name']](ref, *[ast.literal_eval(a) for a in d['args']],
                                         **{k: ast.literal_eval(v) for k, v in d['kw'].items()})
        ref = r if r is not None else ref
    except Exception as e:  # pylint: disable=broad-except
      ref_err = e
  noncomm = 'set' in kinds and any(k in kinds for k in ('fiddler:double_first', 'fiddler:set_y', 'fiddler:with_first',
                                                        'fiddler:append_marker', 'fiddler:store_items'))
  if noncomm:
    out.cls('noncommuting')
  out.nontrivial = noncomm
  # real
  if case['via_str']:
    first = fdl_flags.FiddleFlagSerializer().serialize(base_fn(*bargs, **bkw))
  else:
    parts = [repr(a) for a in bargs] + [f'{k}={v!r}' for k, v in bkw.items()]
    first = f"config:{case['base']}" + (f"({', '.join(parts)})" if parts else '')
  directives = [first] + [_render_directive(d) for d in case['ds']]
  flag = _new_flag()
  cuts = [c + 1 for c in case['cuts']]
  chunks, prev = [], 0
  for c in cuts + [len(directives)]:
    if c > prev:
      chunks.append(directives[prev:c])
      prev = c
  real_err = None
  try:
    for ch in chunks:
      flag.parse(ch)
      val = flag.value
  except Exception as e:  # pylint: disable=broad-except
    real_err = e
  feat = 'via_str' if case['via_str'] else 'config'
  if ref_err is not None:
    out.cls('reference_raises')
    if real_err is None:
      out.add('flag-accepted-directive-the-reference-rejects', 'returned', '', feat, f'{directives} / {ref_err!r}'[:500])
    return out
  if real_err is not None:
    out.add('flag-raises', exc_kind(real_err), fiddle_frame(real_err), feat, f'{directives}: {real_err!r} / {real_err.__cause__!r}'[:700])
    return out
  if C.canon(val) != C.canon(ref):
    out.add('flag-value-differs-from-in-order-application', 'mismatch', '', feat + (':split' if len(chunks) > 1 else ''),
            f'{directives}\nchunks {[len(c) for c in chunks]}\ngot  {val!r}\nwant {ref!r}'[:1500])
    return out
  # serializer round trip
  try:
    s = fdl_flags.FiddleFlagSerializer().serialize(ref)
    f2 = _new_flag()
    f2.parse([s])
    if C.canon(f2.value) != C.canon(ref):
      out.add('serialized-flag-value-differs', 'mismatch', '', '', '')
  except Exception as e:  # pylint: disable=broad-except
    out.add('flag-serializer-raises', exc_kind(e), fiddle_frame(e), '', repr(e)[:300])
  return out


def check_calls(case, out):
  out.nontrivial = bool(case['args'] or case['kw'])
  parts = list(case['args']) + [f'{k}={v}' for k, v in case['kw'].items()]
  if case['bare'] and not parts:
    text = case['name']
  else:
    text = f"{case['name']}({', '.join(parts)})"
  try:
    ce = flag_utils.CallExpression.parse(text)
  except Exception as e:  # pylint: disable=broad-except
    out.add('call-expression-rejected', exc_kind(e), fiddle_frame(e), '', f'{text!r}: {e!r}'[:300])
    return out
  want_args = tuple(ast.literal_eval(a) for a in case['args'])
  want_kw = {k: ast.literal_eval(v) for k, v in case['kw'].items()}
  if ce.func_name != case['name'] or C.canon(tuple(ce.args)) != C.canon(want_args) or \
      C.canon(dict(ce.kwargs), dict_order=True) != C.canon(want_kw, dict_order=True):
    out.add('call-expression-parsed-differently', 'mismatch', '', '', f'{text!r} -> {ce!r}'[:400])
  return out
