"""C08 — traversal paths are sound and complete; identity traversal rebuilds faithfully."""

import collections
import dataclasses

import fiddle as fdl
from fiddle import daglish
from fiddle._src.experimental import daglish_legacy
from hypothesis import strategies as st

from harness import canon as C
from harness.gen import dags
from harness.runner import Outcome, exc_kind, fiddle_frame
from harness.vuni import boxes, things

RULE = (
    'Generated: structures over list, tuple, dict, defaultdict (factories list/int/None/function), '
    'named tuples (with defaults), Buildables with positional, *args and keyword arguments, '
    'empty containers, tuples of literals, Box nodes (registered type whose flatten creates '
    'temporaries), with aliasing and equal-but-distinct copies; plus cyclic structures (list in '
    'itself, dict->list->dict, Buildable reachable from its own argument). Oracle: independent '
    'reference walk; un-memoized iterate yields exactly the reference multiset of (path, object); '
    'follow_path(root, path) is value for every yielded pair; memoized iterate yields every '
    'identity-bearing object exactly once; collect_paths_by_id (daglish and legacy) and '
    'State.get_all_paths at every node equal the reference path sets; identity rebuild through '
    'MemoizedTraversal / legacy memoized_traverse has the canonical form of the input incl. '
    'sharing, types, default_factory; un-memoized variants equal it modulo sharing; cyclic '
    'inputs make memoized APIs raise ValueError (not RecursionError). Non-trivial: >=1 object '
    'with >=2 paths and >=1 of {named tuple, defaultdict, Box, positional Buildable argument}.'
)
RULE += (' ' + 'Also checked: get_all_paths for values without identity (paths of the nearest identity-bearing container plus suffix) and, after a shared container was appended to another list since the cache was filled, get_all_paths(allow_caching=False) on states collected before (leaves of the affected container first).')
RULE += (' ' + 'Round 6: legacy memoized_traverse with visitors whose result is None / a constant (each identity-bearing object visited once).')
RULE += (' ' + "Rounds 3-5: a **kwargs argument deleted and re-set after traversal; chains of registration-free registries ending in the default registry or in fiddle's dataclass registry (dataclass instances as nodes); legacy traverse_with_all_paths judged at every node; g3 nodes with an unset defaulted parameter before *args; a **kwargs entry named like a positional-only parameter.")
ASSUMPTIONS = [
    'reference walk harness/canon.walk + Box wrapper expansion in this file',
    'paths through a Box (whose children are temporaries by design) are excluded from the '
    'follow_path identity clause',
    'un-memoized traversal of cyclic structures is not judged (infinitely many paths)',
]
BUDGET = {'quick': 16 * 900, 'thorough': 16 * 12000}
FLOORS = {'multi_path_object': 0.192, 'special_node': 0.159, 'cyclic': 0.03}


@st.composite
def strategy_(draw, tier):
  if draw(st.floats(0, 1)) < 0.06:
    return {'cycle': draw(st.sampled_from(['list_self', 'dict_list_dict', 'buildable_arg',
                                           'tuple_list', 'deep_list']))}
  if draw(st.floats(0, 1)) < 0.05:
    return {'late_registration': draw(st.sampled_from(['child_registry', 'default_registry'])),
            'n_items': draw(st.integers(1, 3)), 'probe_first': draw(st.booleans())}
  recipe = draw(dags.dag(
      max_nodes=12, min_nodes=4,
      kinds=['B', 'B', 'list', 'tuple', 'dict', 'ddict', 'nt', 'box', 'Bpos', 'ltuple', 'ntuple', 'mdict', 'Bclash', 'dcinst',
             # further node kinds of the shared generator that this check's oracle handles (each once)
             'TV', 'kdict', 'set', 'fset', 'Bann', 'Bmut', 'Bmut1', 'Bmutnest', 'Bpo', 'Bpo3', 'Bdc', 'Bempty', 'AFP', 'Bdictcfg'],
      fns=['things:f2', 'things:h1', 'things:Base', 'things:kwf'], bts=('Config', 'Partial'),
      root_kinds=['B', 'list', 'tuple', 'dict', 'nt', 'box', 'Bpos'], p_alias=0.85, tags=True))
  return {'recipe': recipe, 'chain': draw(st.sampled_from([0, 0, 1, 2, 3])), 'chain_dc': draw(st.booleans())}


def strategy(tier):
  return strategy_(tier)


def make_cycle(kind):
  if kind == 'list_self':
    l = [1, 2]
    l.append(l)
    return l
  if kind == 'dict_list_dict':
    d = {'a': 1}
    d['l'] = [d]
    return d
  if kind == 'buildable_arg':
    cfg = fdl.Config(things.f2, x=1)
    cfg.child = [cfg]
    return cfg
  if kind == 'tuple_list':
    l = []
    t = (l, 1)
    l.append(t)
    return t
  l = [[[]]]
  l[0][0].append(l)
  return l


class _Wrapper:
  """Stands for the temporary single-element list a Box flatten creates."""

  def __init__(self, item):
    self.item = item


def ref_children(x):
  if isinstance(x, boxes.Box):
    return [(('box', i), _Wrapper(v)) for i, v in enumerate(x.items)]
  if isinstance(x, _Wrapper):
    return [(('i', 0), x.item)]
  out = []
  for pe, c in C.children(x):
    out.append((('i', pe[1]) if pe[0] == 'bi' else pe, c))
  return out


def ref_walk(x, path=(), depth=0):
  if depth > 150:
    raise RecursionError('ref_walk too deep')
  yield path, x
  for pe, c in ref_children(x):
    yield from ref_walk(c, path + (pe,), depth + 1)


def norm_path(path):
  out = []
  for el in path:
    n = type(el).__name__
    if n == 'Index':
      out.append(('i', el.index))
    elif n == 'Key':
      out.append(('k', el.key))
    elif n in ('Attr', 'BuildableAttr'):
      out.append(('a', el.name))
    elif n == 'BoxItem':
      out.append(('box', el.index))
    else:
      out.append((n, repr(el)))
  return tuple(out)


def _memoizable_doc(v):
  """daglish.is_memoizable as documented: not an immutable leaf type and not ()."""
  return not C.is_leaf(v) and not (isinstance(v, tuple) and v == ()) and not isinstance(v, _Wrapper)


def _through_box(path):
  return any(pe[0] == 'box' for pe in path)


def _pk(p):
  return repr(p)


def check(case):
  out = Outcome()
  if 'cycle' in case:
    out.cls('cyclic')
    out.nontrivial = True
    root = make_cycle(case['cycle'])
    apis = {
        'MemoizedTraversal.run': lambda: daglish.MemoizedTraversal.run(
            lambda v, s: s.map_children(v), root),
        'iterate(memoized)': lambda: list(daglish.iterate(root, memoized=True)),
        'fdl.build': lambda: fdl.build(root),
    }
    for name, fn in apis.items():
      try:
        fn()
        out.add('cycle-not-reported', 'returned', '', name + ':' + case['cycle'], '')
      except ValueError:
        pass
      except RecursionError as e:
        out.add('cycle-recursion-error', 'RecursionError', '', name + ':' + case['cycle'], repr(e)[:200])
      except Exception as e:  # pylint: disable=broad-except
        out.add('cycle-wrong-exception', exc_kind(e), fiddle_frame(e), name + ':' + case['cycle'], repr(e)[:300])
    return out

  if 'late_registration' in case:
    return check_late_registration(case, out)
  root, objs = dags.build(case['recipe'])
  try:
    ref = list(ref_walk(root))
  except RecursionError:
    out.skipped = 'ref-walk-too-deep'
    return out
  if len(ref) > 20000:
    out.skipped = 'too-many-paths'
    return out
  by_id = collections.defaultdict(list)
  pins = []
  for p, v in ref:
    if _memoizable_doc(v):
      by_id[id(v)].append(p)
      pins.append(v)
  multi = any(len(ps) > 1 and not C.is_internable(pins_v) for pins_v, ps in
              ((v, by_id[id(v)]) for v in pins))
  special = any(C.is_namedtuple(v) or isinstance(v, (collections.defaultdict, boxes.Box))
                or (isinstance(v, fdl.Buildable) and any(isinstance(k, int) for k in v.__arguments__))
                for _, v in ref)
  if multi:
    out.cls('multi_path_object')
  if special:
    out.cls('special_node')
  out.nontrivial = multi and special
  feat = 'box' if any(isinstance(v, boxes.Box) for _, v in ref) else 'plain'

  # 1. un-memoized iterate: exact multiset of (path, object)
  try:
    got = [(norm_path(p), v) for v, p in daglish.iterate(root, memoized=False)]
  except Exception as e:  # pylint: disable=broad-except
    out.add('iterate-unmemoized-raises', exc_kind(e), fiddle_frame(e), feat, repr(e)[:300])
    return out
  exp_c = collections.Counter(_pk(p) for p, _ in ref)
  got_c = collections.Counter(_pk(p) for p, _ in got)
  if exp_c != got_c:
    missing = list((exp_c - got_c))[:3]
    extra = list((got_c - exp_c))[:3]
    out.add('iterate-unmemoized-paths', 'mismatch', '', feat, f'missing {missing} extra {extra}')
    return out
  ref_by_path = {_pk(p): v for p, v in ref}
  for p, v in got:
    r = ref_by_path[_pk(p)]
    if isinstance(r, _Wrapper):
      if not (isinstance(v, list) and len(v) == 1 and v[0] is r.item):
        out.add('iterate-unmemoized-value', 'mismatch', '', feat, f'at {p}: {v!r}')
        return out
    elif v is not r:
      out.add('iterate-unmemoized-value', 'mismatch', '', feat, f'at {p}: {v!r} is not the object there')
      return out

  # 2. follow_path soundness (both traversals)
  for memo in (False, True):
    for v, p in daglish.iterate(root, memoized=memo):
      np_ = norm_path(p)
      if _through_box(np_):
        continue
      try:
        f = daglish.follow_path(root, p)
      except Exception as e:  # pylint: disable=broad-except
        out.add('follow_path-raises', exc_kind(e), fiddle_frame(e), feat, f'{np_}: {e!r}'[:300])
        return out
      if f is not v:
        out.add('follow_path-is-not-value', 'mismatch', '', feat + (':memo' if memo else ''), f'{np_}')
        return out

  # 3. memoized iterate: every identity-bearing object exactly once
  seen = collections.Counter()
  keep = []
  for v, p in daglish.iterate(root, memoized=True):
    keep.append(v)
    if not C.is_internable(v) and not _through_box(norm_path(p)[-1:]):
      seen[id(v)] += 1
  expect_ids = {id(v) for p, v in ref if not C.is_internable(v) and not isinstance(v, _Wrapper)}
  wrapper_free_seen = {i for i in seen if i in expect_ids}
  if wrapper_free_seen != expect_ids:
    out.add('iterate-memoized-misses-object', 'mismatch', '', feat,
            f'{len(expect_ids - wrapper_free_seen)} identity-bearing objects never yielded')
    return out
  dup = [i for i in expect_ids if seen[i] != 1]
  if dup:
    out.add('iterate-memoized-visits-twice', 'mismatch', '', feat, f'{len(dup)} objects')
    return out

  has_box = feat == 'box'
  # 3b. legacy memoized_traverse with a visitor that only collects (its result for every node is
  #     None) and one that maps every container to a constant: every identity-bearing object once
  if not has_box:
    for vname, result in (('collect-only', None), ('constant', 0)):
      lseen = collections.Counter()
      lkeep = []

      def collecting(paths, value, lseen=lseen, lkeep=lkeep, result=result):
        lkeep.append(value)
        lseen[id(value)] += 1
        yield
        return result

      try:
        daglish_legacy.memoized_traverse(collecting, root)
      except Exception as e:  # pylint: disable=broad-except
        out.add('legacy-memoized-traverse-raises', exc_kind(e), fiddle_frame(e), feat + ':' + vname, repr(e)[:300])
        return out
      if {i for i in lseen if i in expect_ids} != expect_ids:
        out.add('legacy-memoized-misses-object', 'mismatch', '', feat + ':' + vname, '')
        return out
      dup = [i for i in expect_ids if lseen[i] != 1]
      if dup:
        out.add('legacy-memoized-visits-twice', 'mismatch', '', feat + ':' + vname, f'{len(dup)} objects')
        return out

  # 4. collect_paths_by_id (daglish + legacy)
  for name, fn in (('daglish', lambda: daglish.collect_paths_by_id(root, memoizable_only=True)),
                   ('legacy', lambda: daglish_legacy.collect_paths_by_id(root, memoizable_only=True))):
    if has_box and name == 'legacy':
      continue  # legacy traversals are documented for list/tuple/namedtuple/dict/Buildable only
    try:
      res = fn()
    except Exception as e:  # pylint: disable=broad-except
      out.add('collect_paths_by_id-raises', exc_kind(e), fiddle_frame(e), feat + ':' + name, repr(e)[:300])
      return out
    for i, ps in by_id.items():
      want = sorted(_pk(p) for p in ps)
      have = sorted(_pk(norm_path(p)) for p in res.get(i, []))
      if want != have:
        out.add('collect_paths_by_id-wrong', 'mismatch', '', feat + ':' + name,
                f'object {type(ref_by_path[_pk(ps[0])]).__name__}: want {want[:4]} have {have[:4]}')
        return out

  # 5. State.get_all_paths at every node (memoized + basic traversal)
  for tname, tcls in (('memoized', daglish.MemoizedTraversal), ('basic', daglish.BasicTraversal)):
    problems = []

    def visit(v, state, problems=problems):
      np_ = norm_path(state.current_path)
      r = ref_by_path.get(_pk(np_))
      if r is not None and not isinstance(r, _Wrapper) and _memoizable_doc(v) and not _through_box(np_[-1:]):
        want = sorted(_pk(p) for p in by_id[id(v)])
        have = sorted(_pk(norm_path(p)) for p in state.get_all_paths())
        if want != have:
          problems.append((np_, want[:4], have[:4]))
      elif not _memoizable_doc(v) and not _through_box(np_):
        # a value without identity is reached through its nearest identity-bearing container
        want = _leaf_paths(np_, ref_by_path, by_id)
        if want is not None:
          have = sorted(_pk(norm_path(p)) for p in state.get_all_paths())
          if want != have:
            problems.append((np_, want[:4], have[:4]))
      if state.is_traversable(v):
        for _ in state.yield_map_child_values(v):
          pass
      return None

    try:
      tcls.run(visit, root)
    except Exception as e:  # pylint: disable=broad-except
      out.add('get_all_paths-raises', exc_kind(e), fiddle_frame(e), feat + ':' + tname, repr(e)[:300])
      return out
    if problems:
      out.add('get_all_paths-wrong', 'mismatch', '', feat + ':' + tname, str(problems[0])[:600])
      return out

  # 5a. legacy traverse_with_all_paths: containers get their own path set, values without identity
  #     the paths of the container they sit in plus their own last element
  if not has_box:
    legacy_problems = []

    def all_paths_fn(all_paths, current_path, value):
      np_ = norm_path(current_path)
      if _memoizable_doc(value):
        want = sorted(_pk(p) for p in by_id[id(value)])
      else:
        want = _leaf_paths(np_, ref_by_path, by_id) if np_ else [_pk(())]
      if want is not None and not legacy_problems:
        have = sorted(_pk(norm_path(p)) for p in all_paths)
        if want != have:
          legacy_problems.append((np_, want[:3], have[:3]))
      return (yield)

    try:
      daglish_legacy.traverse_with_all_paths(all_paths_fn, root)
    except Exception as e:  # pylint: disable=broad-except
      out.add('legacy-all-paths-raises', exc_kind(e), fiddle_frame(e), feat, repr(e)[:300])
      return out
    if legacy_problems:
      out.add('legacy-all-paths-wrong', 'mismatch', '', feat, str(legacy_problems[0])[:600])
      return out

  # 5b. memoize_internables=False: named tuples / lists / Buildables are still identity-bearing
  seen2 = collections.Counter()
  keep2 = []
  for v, p in daglish.iterate(root, memoized=True, memoize_internables=False):
    keep2.append(v)
    if not C.is_internable(v) and not _through_box(norm_path(p)[-1:]):
      seen2[id(v)] += 1
  bad2 = [i for i in expect_ids if seen2.get(i, 0) != 1]
  if bad2:
    o = next(v for p, v in ref if id(v) == bad2[0])
    out.add('iterate-memoized-no-internables-visit-count', 'mismatch', '', feat + ':' + type(o).__name__,
            f'{type(o).__name__} yielded {seen2.get(bad2[0], 0)} times')
    return out
  try:
    st_ = daglish.MemoizedTraversal.begin(lambda v, s: s.map_children(v), root, memoize_internables=False)
    res = st_.traversal.traversal_fn(root, st_)
  except Exception as e:  # pylint: disable=broad-except
    out.add('identity-rebuild-raises', exc_kind(e), fiddle_frame(e), feat + ':no-internables', repr(e)[:300])
    return out
  if C.canon(res) != C.canon(root):
    out.add('identity-rebuild-differs', 'mismatch', '', feat + ':MemoizedTraversal(memoize_internables=False)',
            f'want {str(C.canon(root))[:500]}\ngot  {str(C.canon(res))[:500]}')
    return out

  # 6. identity rebuilds
  err = _identity_rebuilds(root, has_box, feat, out)
  if err:
    return out
  # 7. all-paths query with allow_caching=False after the structure gained a reference (mutates root)
  if not has_box:
    _check_growth(root, ref, out)
    if not out.findings and case.get('chain'):
      _check_registry_chain(root, case['chain'], out, on_dataclasses=bool(case.get('chain_dc')))
    if not out.findings:
      _check_kwargs_reorder(root, out)
  return out


def _dc_walk(x, path=(), depth=0):
  """Reference walk in which dataclass instances are nodes (fields in declaration order)."""
  if depth > 150:
    raise RecursionError('ref walk too deep')
  yield path, x
  if dataclasses.is_dataclass(x) and not isinstance(x, type):
    ch = [(('a', f.name), getattr(x, f.name)) for f in dataclasses.fields(x)]
  else:
    ch = ref_children(x)
  for pe, c in ch:
    yield from _dc_walk(c, path + (pe,), depth + 1)


def _check_registry_chain(root, depth, out, on_dataclasses=False):
  """A chain of `depth` registries without registrations of their own, each falling back to the
  next and the last to the default registry (or to fiddle's dataclass registry, which answers
  through an overridden lookup), must traverse exactly like that last registry."""
  out.cls('registry_chain')
  reg = True
  if on_dataclasses:
    from fiddle._src.experimental import dataclasses as fdl_dc
    reg = fdl_dc.daglish_dataclass_registry
    out.cls('registry_chain_on_dataclasses')
  for _ in range(depth):
    reg = daglish.NodeTraverserRegistry(use_fallback=reg)
  ref = list(_dc_walk(root) if on_dataclasses else ref_walk(root))
  exp_c = collections.Counter(_pk(p) for p, _ in ref)
  try:
    got_c = collections.Counter(_pk(norm_path(p)) for _, p in daglish.iterate(root, memoized=False, registry=reg))
  except Exception as e:  # pylint: disable=broad-except
    out.add('registry-chain-raises', exc_kind(e), fiddle_frame(e), f'depth{depth}', repr(e)[:300])
    return
  if got_c != exp_c:
    out.add('registry-chain-paths-differ', 'mismatch', '', f'depth{depth}:iterate',
            f'{sum(got_c.values())} paths instead of {sum(exp_c.values())}')
    return
  by_id = collections.defaultdict(list)
  for p, v in ref:
    if _memoizable_doc(v):
      by_id[id(v)].append(p)
  res = daglish.collect_paths_by_id(root, memoizable_only=True, registry=reg)
  for i, ps in by_id.items():
    if sorted(_pk(p) for p in ps) != sorted(_pk(norm_path(p)) for p in res.get(i, [])):
      out.add('registry-chain-paths-differ', 'mismatch', '', f'depth{depth}:collect_paths_by_id', '')
      return
  fn = lambda v, s: s.map_children(v)
  rebuilt = fn(root, daglish.MemoizedTraversal(traversal_fn=fn, root_obj=root, registry=reg).initial_state())
  if C.canon(rebuilt) != C.canon(root):
    out.add('registry-chain-paths-differ', 'mismatch', '', f'depth{depth}:identity-rebuild', '')


def _check_kwargs_reorder(root, out):
  """After the structure was traversed, a **kwargs argument is deleted and set again (same key
  set, different insertion order); paths reported afterwards must still lead to their values."""
  cands = []
  for _, v in ref_walk(root):
    if isinstance(v, fdl.Buildable):
      extra = [k for k in v.__arguments__ if isinstance(k, str) and k not in v.__signature_info__.parameters]
      if len(extra) >= 2 and not any(v is c for c in cands):
        cands.append(v)
  if not cands:
    return
  out.cls('kwargs_reorder')
  for b in cands:
    extra = [k for k in b.__arguments__ if isinstance(k, str) and k not in b.__signature_info__.parameters]
    val = b.__arguments__[extra[0]]
    delattr(b, extra[0])
    setattr(b, extra[0], val)
  ref2 = list(ref_walk(root))
  ref2_by_path = {_pk(p): v for p, v in ref2}
  for memo in (False, True):
    for v, p in daglish.iterate(root, memoized=memo):
      np_ = norm_path(p)
      r = ref2_by_path.get(_pk(np_), _MISSING)
      if r is _MISSING or (r is not v and not isinstance(r, _Wrapper)):
        out.add('path-wrong-after-kwargs-reorder', 'mismatch', '', 'iterate' + (':memo' if memo else ''),
                f'{np_}: yielded {v!r}, there is {r!r}'[:500])
        return
      if daglish.follow_path(root, p) is not v:
        out.add('path-wrong-after-kwargs-reorder', 'mismatch', '', 'follow_path', f'{np_}')
        return
  by_id2 = collections.defaultdict(list)
  for p, v in ref2:
    if _memoizable_doc(v):
      by_id2[id(v)].append(p)
  res = daglish.collect_paths_by_id(root, memoizable_only=True)
  for i, ps in by_id2.items():
    if sorted(_pk(p) for p in ps) != sorted(_pk(norm_path(p)) for p in res.get(i, [])):
      out.add('path-wrong-after-kwargs-reorder', 'mismatch', '', 'collect_paths_by_id', '')
      return


_MISSING = object()


def _leaf_paths(np_, ref_by_path, by_id):
  for k in range(len(np_) - 1, -1, -1):
    obj = ref_by_path.get(_pk(np_[:k]), _MISSING)
    if obj is _MISSING or isinstance(obj, _Wrapper):
      return None
    if _memoizable_doc(obj):
      return sorted(_pk(p + np_[k:]) for p in by_id[id(obj)])
  return None


def _check_growth(root, ref, out):
  """get_all_paths(allow_caching=False) reflects references added since the cache was filled."""
  lists = [v for _, v in ref if type(v) is list]
  cands = []
  seen = set()
  for _, v in ref:
    if id(v) in seen or not _memoizable_doc(v) or C.is_internable(v) or v is root:
      continue
    seen.add(id(v))
    if any(not _memoizable_doc(c) for _, c in ref_children(v)):
      cands.append(v)
  pair = None
  for o in cands:
    below = {id(x) for _, x in ref_walk(o)}
    for l in lists:
      if id(l) not in below:
        pair = (l, o)
        break
    if pair:
      break
  if pair is None:
    return
  out.cls('growth_scenario')
  l, o = pair
  for tname, tcls in (('basic', daglish.BasicTraversal), ('memoized', daglish.MemoizedTraversal)):
    states = []

    def visit(v, state, states=states):
      states.append(state)
      state.get_all_paths()
      if state.is_traversable(v):
        for _ in state.yield_map_child_values(v):
          pass

    tcls.run(visit, root)
    l.append(o)
    try:
      ref2 = list(ref_walk(root))
      by_id2 = collections.defaultdict(list)
      for p, v in ref2:
        if _memoizable_doc(v):
          by_id2[id(v)].append(p)
      ref2_by_path = {_pk(p): v for p, v in ref2}
      # leaves directly under the object that gained a path first: a query on a container would refresh the cache
      def prio(state):
        np_ = norm_path(state.current_path)
        parent = ref2_by_path.get(_pk(np_[:-1]), _MISSING) if np_ else _MISSING
        return 0 if (parent is o and not _memoizable_doc(state.original_value)) else 1
      states.sort(key=prio)
      for state in states[:8]:
        np_ = norm_path(state.current_path)
        v = state.original_value
        if _memoizable_doc(v):
          want = sorted(_pk(p) for p in by_id2[id(v)])
        else:
          want = _leaf_paths(np_, ref2_by_path, by_id2)
          if want is None:
            continue
        try:
          have = sorted(_pk(norm_path(p)) for p in state.get_all_paths(allow_caching=False))
        except Exception as e:  # pylint: disable=broad-except
          out.add('get_all_paths-uncached-raises', exc_kind(e), fiddle_frame(e), tname, repr(e)[:300])
          return
        if want != have:
          out.add('get_all_paths-uncached-stale', 'mismatch', '', tname + (':leaf' if not _memoizable_doc(v) else ':container'),
                  f'at {np_}: want {want[:4]} have {have[:4]}')
          return
    finally:
      l.pop()


def _identity_rebuilds(root, has_box, feat, out):
  want_sh = C.canon(root)
  want_tree = C.canon(root, sharing=False)

  def legacy_fn(paths, value):
    return (yield)

  def legacy_path_fn(path, value):
    return (yield)

  rebuilds = {
      'MemoizedTraversal': (lambda: daglish.MemoizedTraversal.run(lambda v, s: s.map_children(v), root), True),
      'legacy.memoized_traverse': (lambda: daglish_legacy.memoized_traverse(legacy_fn, root), True),
      'BasicTraversal': (lambda: daglish.BasicTraversal.run(lambda v, s: s.map_children(v), root), False),
      'legacy.traverse_with_path': (lambda: daglish_legacy.traverse_with_path(legacy_path_fn, root), False),
  }
  for name, (fn, sharing) in rebuilds.items():
    if has_box and name.startswith('legacy'):
      continue
    try:
      res = fn()
    except Exception as e:  # pylint: disable=broad-except
      out.add('identity-rebuild-raises', exc_kind(e), fiddle_frame(e), feat + ':' + name, repr(e)[:300])
      return out
    got_t = C.canon(res) if sharing else C.canon(res, sharing=False)
    if got_t != (want_sh if sharing else want_tree):
      out.add('identity-rebuild-differs', 'mismatch', '', feat + ':' + name,
              f'want {str(want_sh if sharing else want_tree)[:500]}\ngot  {str(got_t)[:500]}')
      return out
  return None


_LATE_COUNT = [0]


def check_late_registration(case, out):
  """A node type registered on the default registry *after* a registry with fallback has
  already looked it up must be traversed from then on (history of registry operations)."""
  out.cls('late_registration')
  out.nontrivial = True
  _LATE_COUNT[0] += 1
  cls = type(f'LateNode{_LATE_COUNT[0]}', (), {})

  def mk(items):
    o = cls()
    o.items = list(items)
    return o

  shared = [1, 2]
  node = mk([shared] + [fdl.Config(things.f2, x=i) for i in range(case['n_items'])])
  root = {'n': node, 'alias': shared}
  use_child = case['late_registration'] == 'child_registry'
  registry = daglish.NodeTraverserRegistry(use_fallback=True) if use_child else None
  kw = {'registry': registry} if use_child else {}
  if case['probe_first']:
    before = [norm_path(p) for _, p in daglish.iterate(root, memoized=False, **kw)]
    if any(p[:1] == (('k', 'n'),) and len(p) > 1 for p in before):
      out.add('unregistered-type-traversed', 'mismatch', '', case['late_registration'], str(before))
      return out
    if use_child:
      registry.is_traversable_type(cls)
  daglish.register_node_traverser(
      cls,
      flatten_fn=lambda o: (tuple(o.items), None),
      unflatten_fn=lambda vals, _: mk(vals),
      path_elements_fn=lambda o: tuple(daglish.Index(i) for i in range(len(o.items))))
  after = sorted(repr(norm_path(p)) for _, p in daglish.iterate(root, memoized=False, **kw))
  want = [(), (('k', 'n'),), (('k', 'alias'),), (('k', 'alias'), ('i', 0)), (('k', 'alias'), ('i', 1)),
          (('k', 'n'), ('i', 0)), (('k', 'n'), ('i', 0), ('i', 0)), (('k', 'n'), ('i', 0), ('i', 1))]
  for i in range(case['n_items']):
    want.append((('k', 'n'), ('i', i + 1)))
    want.append((('k', 'n'), ('i', i + 1), ('a', 'x')))
  want = sorted(repr(p) for p in want)
  feat = case['late_registration'] + (':probed' if case['probe_first'] else '')
  if after != want:
    out.add('late-registered-type-not-traversed', 'mismatch', '', feat,
            f'paths {after[:6]}... want {want[:6]}...')
    return out
  paths = daglish.collect_paths_by_id(root, memoizable_only=True, **kw)
  have = sorted(repr(norm_path(p)) for p in paths.get(id(shared), []))
  if have != sorted([repr((('k', 'alias'),)), repr((('k', 'n'), ('i', 0)))]):
    out.add('late-registered-type-all-paths', 'mismatch', '', feat, str(have))
  return out
