"""C13 — the generated fiddler does what apply_diff does."""

import copy
import sys
import types

import fiddle as fdl
from fiddle import daglish
from fiddle._src import diffing
from fiddle._src.codegen import codegen_diff
from hypothesis import strategies as st

from harness import canon as C
from harness.gen import dags
from harness.props import c10
from harness.runner import Outcome, exc_kind, fiddle_frame
from harness.vuni import things

RULE = (
    'Generated: diffs produced by build_diff over the pair generator of C10 (independent pairs, '
    'identity-sharing pairs, k random edits incl. callable swaps, tag edits, aliases created and '
    'broken, moved subtrees), plus hand-assembled diffs from two parametrised templates '
    '(a reference into a part of old that the same diff replaces, through the same or an aliased '
    'path; new shared values that reference each other); every diff is rendered with '
    'variable_naming in {explicit, short} and with / without the old configuration. Oracle: the '
    'emitted module compiles; exec + fiddler(copy of old) yields the canonical form that '
    'apply_diff yields on another copy. Non-trivial: the diff has a reference into old under a '
    'modified ancestor, or >=2 new shared values one referencing the other, or a callable swap '
    'together with a tag change.'
)
RULE += (' ' + 'Round 7: template tag_below_moved (a Buildable whose only change is a tag change sits below a Buildable that the diff relocates).')
RULE += (' ' + 'Round 3: template symbols (objects of __main__ with nested qualnames, two modules with the same last name).')
ASSUMPTIONS = [
    'if apply_diff itself raises for a diff, the case is skipped and counted (C10 owns that failure)',
    'formatting of the emitted text is not judged',
]
BUDGET = {'quick': 16 * 600, 'thorough': 16 * 8000}
FLOORS = {'kind_template': 0.1, 'has_reference_or_shared': 0.228}
TIME_LIMIT = {'quick': 900, 'thorough': 6 * 3600}


@st.composite
def strategy_(draw, tier):
  if draw(st.floats(0, 1)) < 0.2:
    return {'kind': 'template', 't': draw(st.sampled_from(['alias_replaced', 'alias_replaced', 'shared_chain', 'symbols', 'tag_below_moved'])),
            'slots': draw(st.permutations(['b', 'c', 'd', 'e'])), 'swap': draw(st.booleans()),
            'which': draw(st.lists(st.sampled_from(['main_nested', 'main_fn', 'vfrac', 'stdfrac']), min_size=1, max_size=4, unique=True)),
            'shared_block': draw(st.booleans()), 'modify_via': draw(st.sampled_from(['a', 'b'])),
            'ref_via': draw(st.sampled_from(['a', 'b'])), 'also_edit_moved': draw(st.booleans()),
            'extra_delete': draw(st.booleans())}
  case = draw(c10.strategy('quick', extra_kinds=False))
  case['kind'] = 'pair'
  return case


def strategy(tier):
  return strategy_(tier)


def _attr(*names):
  return tuple(daglish.Attr(n) for n in names)


def make_template(case):
  t = case['t']
  if t == 'alias_replaced':
    norm = fdl.Config(things.f2, x='norm', y=2.0)
    blk = fdl.Config(things.f2, x='blk', child=norm)
    blk2 = blk if case['shared_block'] else fdl.Config(things.f2, x='blk', child=fdl.Config(things.f2, x='norm', y=2.0))
    head = fdl.Config(things.f2, x='head')
    old = fdl.Config(things.h1, a=blk, b=blk2, c=head, d='x')
    new_norm = fdl.Config(things.f2, x='new-norm', y=9)
    changes = [
        diffing.ModifyValue(_attr(case['modify_via'], 'child'), new_norm),
        diffing.SetValue(_attr('c', 'child'), diffing.Reference('old', _attr(case['ref_via'], 'child'))),
    ]
    if case['also_edit_moved']:
      changes.append(diffing.ModifyValue(_attr(case['ref_via'], 'child', 'y'), 3.5)
                     if case['ref_via'] != case['modify_via'] and not case['shared_block'] else
                     diffing.SetValue(_attr('c', 'y'), 'edited'))
    if case['extra_delete']:
      changes.append(diffing.DeleteValue(_attr('d')))
    return old, diffing.Diff(tuple(changes), ())
  if t == 'tag_below_moved':
    # a Buildable whose only change is a tag change, below a Buildable that the same diff moves
    # elsewhere while something new takes its old place
    from harness.vuni import tags as vtags
    norm = fdl.Config(things.f2, x='norm', y=2.0)
    if case['swap']:
      fdl.add_tag(norm, 'y', vtags.TagA)
    blk = fdl.Config(things.f2, x='blk', child=norm)
    old = fdl.Config(things.h1, a=blk, c=fdl.Config(things.f2, x='head'), d='x')
    repl = (fdl.Config(things.f2, x='new-blk', child=fdl.Config(things.f2, x='new-norm', y=7)) if case['shared_block']
            else fdl.Config(things.h1, a='other-shape'))
    tag_op = (diffing.RemoveTag(_attr('a', 'child', 'y'), vtags.TagA) if case['swap']
              else diffing.AddTag(_attr('a', 'child', 'y'), vtags.TagA))
    changes = [
        diffing.ModifyValue(_attr('a'), repl),
        diffing.SetValue(_attr('c', 'child'), diffing.Reference('old', _attr('a'))),
        tag_op,
    ]
    if case['also_edit_moved']:
      changes.append(diffing.AddTag(_attr('a', 'x'), vtags.TagX))
    if case['extra_delete']:
      changes.append(diffing.DeleteValue(_attr('d')))
    return old, diffing.Diff(tuple(changes), ())
  if t == 'symbols':
    # new values whose callables are referenced in unusual ways: objects of the running script
    # (module '__main__', nested qualname), and two modules with the same last name (a package
    # sub-module and a top-level module)
    import fractions as std_fractions
    from harness.vuni import fractions as vfractions
    mk = {'main_nested': lambda: fdl.Config(things.MainOuter.Inner, x=1),
          'main_fn': lambda: fdl.Config(things.main_fn, x=2),
          'vfrac': lambda: fdl.Config(vfractions.frac, x=3),
          'stdfrac': lambda: fdl.Config(std_fractions.Fraction, numerator=1, denominator=2)}
    old = fdl.Config(things.h1, a=fdl.Config(things.f2, x=0))
    changes = [diffing.SetValue(_attr(slot), mk[w]()) for slot, w in zip(case['slots'], case['which'])]
    if case['swap']:
      changes.append(diffing.ModifyValue(_attr('a') + (daglish.BuildableFnOrCls(),), things.MainOuter.Inner))
    return old, diffing.Diff(tuple(changes), ())
  # shared_chain: new shared values referencing each other
  old = fdl.Config(things.h1, a='x', b=fdl.Config(things.f2, x='keep'))
  s1 = fdl.Config(things.f2, x='s1', child=diffing.Reference('old', _attr('b')))
  s0 = fdl.Config(things.f2, x='s0', child=diffing.Reference('new_shared_values', (daglish.Index(1),)),
                  y=[diffing.Reference('new_shared_values', (daglish.Index(1),))])
  changes = [
      diffing.SetValue(_attr('d'), diffing.Reference('new_shared_values', (daglish.Index(0),))),
      diffing.SetValue(_attr('e'), diffing.Reference('new_shared_values', (daglish.Index(1),))),
      diffing.SetValue(_attr('c'), [diffing.Reference('new_shared_values', (daglish.Index(0),)), 1]),
  ]
  if case['extra_delete']:
    changes.append(diffing.DeleteValue(_attr('a')))
  return old, diffing.Diff(tuple(changes), (s0, s1))


def _known_feature(diff):
  """Input features of the listed known findings (properties of the new values in the diff)."""
  vals = [getattr(ch, 'new_value', None) for ch in diff.changes] + list(diff.new_shared_values)
  pos = untagged = False
  for v in vals:
    try:
      nodes = [w for _, w in C.walk(v)]
    except RecursionError:
      continue
    for w in nodes:
      if isinstance(w, fdl.Buildable):
        if any(isinstance(k, int) for k in w.__arguments__):
          pos = True
        if any(ts and k not in w.__arguments__ for k, ts in w.__argument_tags__.items()):
          untagged = True
  if pos:
    return 'new-value-with-positional-argument'
  if untagged:
    return 'new-value-with-tag-on-unset-argument'
  return None


def check(case):
  # objects "defined in the running script": while the case runs, sys.modules['__main__'] is a
  # module really named '__main__' (in a multiprocessing worker it is called '__mp_main__')
  # that holds them
  real_main = sys.modules.get('__main__')
  fake = types.ModuleType('__main__')
  fake.MainOuter = things.MainOuter
  fake.main_fn = things.main_fn
  sys.modules['__main__'] = fake
  try:
    return _check(case)
  finally:
    sys.modules['__main__'] = real_main


def _check(case):
  out = Outcome()
  out.cls('kind_' + case['kind'])
  if case['kind'] == 'template':
    old, diff = make_template(case)
    feat = 'template:' + case['t']
    out.cls('has_reference_or_shared')
    out.nontrivial = True
  else:
    try:
      old, new, applied = c10.make_pair(case)
    except RecursionError:
      out.skipped = 'recursion'
      return out
    if type(old) is not type(new):
      out.skipped = 'root-types-differ'
      return out
    try:
      diff = diffing.build_diff(old, new)
    except Exception:  # pylint: disable=broad-except
      out.prereq_failed += 1
      out.skipped = 'build_diff-raises'
      return out
    feat = 'pair:' + case['mode']
    has_ref = 'Reference' in str(diff)
    if has_ref or diff.new_shared_values:
      out.cls('has_reference_or_shared')
    swap_and_tag = any(k.startswith('swap') for k in applied) and any('tag' in k for k in applied)
    out.nontrivial = bool(has_ref or len(diff.new_shared_values) >= 2 or swap_and_tag)
  kf = _known_feature(diff)
  if kf:
    feat = kf
    out.cls('known_feature')
  # reference result
  ref = copy.deepcopy(old)
  try:
    diffing.apply_diff(diff, ref)
  except Exception:  # pylint: disable=broad-except
    out.prereq_failed += 1
    out.skipped = 'apply_diff-raises'
    return out
  want = C.canon(ref)
  diff_before = C.canon(diff)
  for naming in ('explicit', 'short'):
    for with_old in (True, False):
      ofeat = feat if kf else f'{feat}:{naming}:{"old" if with_old else "noold"}'
      try:
        code = codegen_diff.fiddler_from_diff(diff, old=old if with_old else None, variable_naming=naming).code
      except Exception as e:  # pylint: disable=broad-except
        out.add('fiddler_from_diff-raises', exc_kind(e), fiddle_frame(e), ofeat, f'{e!r}\n{diff}'[:1500])
        return out
      try:
        compiled = compile(code, '<fiddler>', 'exec')
      except SyntaxError as e:
        out.add('fiddler-does-not-compile', 'SyntaxError', '', ofeat, f'{e!r}\n{code}'[:2500])
        return out
      ns = {}
      work = copy.deepcopy(old)
      try:
        exec(compiled, ns)  # pylint: disable=exec-used
        res = ns['fiddler'](work)
      except Exception as e:  # pylint: disable=broad-except
        out.add('fiddler-raises', exc_kind(e), fiddle_frame(e), ofeat, f'{e!r}\n{code}\n{diff}'[:3500])
        return out
      got = C.canon(work)
      if got != want:
        kind = 'sharing-only' if C.canon(work, sharing=False) == C.canon(ref, sharing=False) else 'values'
        out.add('fiddler-result-differs-from-apply_diff', kind, '', ofeat,
                f'{code}\n{diff}\nfiddler: {work!r}\napply_diff: {ref!r}'[:4000])
        return out
  if C.canon(diff) != diff_before:
    out.add('fiddler_from_diff-modified-diff', 'mismatch', '', feat, '')
  return out
