"""Deterministic thread scheduler on sys.monitoring LINE events (PEP 669).

Real `threading.Thread`s (so `threading.local` behaves as in production) run
one at a time; a yield point is every source line executed inside fiddle/_src
by a managed thread.  The schedule is a set of pre-emption points
(thread, own_step) -> thread to run next; everything else runs to completion.
"""

import os
import sys
import threading
import time

import fiddle

FIDDLE_SRC = os.path.join(os.path.dirname(os.path.realpath(fiddle.__file__)), '_src') + os.sep
TOOL_ID = 3
_installed = [False]
_active = [None]  # the running Scenario (at most one per process)


def _on_line(code, lineno):
  sc = _active[0]
  if sc is None:
    return sys.monitoring.DISABLE  # re-enabled by restart_events() when a scenario starts
  fn = code.co_filename
  if not fn.startswith(FIDDLE_SRC) or fn.endswith('_test.py'):
    return sys.monitoring.DISABLE
  st = sc.by_ident.get(threading.get_ident())
  if st is None:
    return None
  sc.yield_point(st, fn, lineno, code.co_name)
  return None


def install():
  if _installed[0]:
    return
  mon = sys.monitoring
  try:
    mon.use_tool_id(TOOL_ID, 'verif-sched')
  except ValueError:
    pass
  mon.register_callback(TOOL_ID, mon.events.LINE, _on_line)
  mon.set_events(TOOL_ID, mon.events.LINE)
  _installed[0] = True


def uninstall():
  if _installed[0]:
    sys.monitoring.set_events(TOOL_ID, 0)
    sys.monitoring.free_tool_id(TOOL_ID)
    _installed[0] = False


class _ThreadState:

  def __init__(self, idx, program):
    self.idx = idx
    self.program = program
    self.steps = 0
    self.result = None
    self.error = None
    self.trace = []  # (basename, lineno, funcname) per step (only when tracing)
    self.flags = []  # user-supplied per-preemption observations


class Scenario:
  """Runs `programs` (callables) under a schedule.

  preempt: dict {(thread_idx, own_step): next_thread_idx}
  """

  def __init__(self, programs, preempt=None, trace=False, observe=None, timeout=30.0):
    self.threads = [_ThreadState(i, p) for i, p in enumerate(programs)]
    self.preempt = dict(preempt or {})
    self.trace = trace
    self.observe = observe
    self.timeout = timeout
    self.cond = threading.Condition()
    self.current = 0
    self.done = [False] * len(programs)
    self.by_ident = {}
    self.switches = []  # (from_thread, step, file, line, func, to_thread, observation)
    self.stuck = False

  def yield_point(self, st, filename, lineno, funcname):
    st.steps += 1
    if self.trace:
      st.trace.append((os.path.basename(filename), lineno, funcname))
    target = self.preempt.get((st.idx, st.steps))
    if target is None or target == st.idx or self.done[target]:
      return
    try:
      obs = self.observe() if self.observe else None
    except Exception:  # pylint: disable=broad-except
      obs = None
    self.switches.append((st.idx, st.steps, os.path.basename(filename), lineno, funcname, target, obs))
    with self.cond:
      self.current = target
      self.cond.notify_all()
      self._wait_for_turn(st.idx)

  def _wait_for_turn(self, idx):
    deadline = time.time() + self.timeout
    while self.current != idx:
      remaining = deadline - time.time()
      if remaining <= 0:
        self.stuck = True
        raise RuntimeError('scheduler: waited too long for the baton')
      self.cond.wait(remaining)

  def _runner(self, st):
    self.by_ident[threading.get_ident()] = st
    try:
      with self.cond:
        self._wait_for_turn(st.idx)
      try:
        st.result = st.program()
      except BaseException as e:  # pylint: disable=broad-except
        st.error = e
    finally:
      with self.cond:
        self.done[st.idx] = True
        nxt = [i for i, d in enumerate(self.done) if not d]
        if nxt and self.current == st.idx:
          self.current = nxt[0]
        self.cond.notify_all()
      self.by_ident.pop(threading.get_ident(), None)

  def run(self):
    install()
    _active[0] = self
    sys.monitoring.restart_events()
    ts = [threading.Thread(target=self._runner, args=(st,), daemon=True) for st in self.threads]
    try:
      for t in ts:
        t.start()
      for t in ts:
        t.join(self.timeout)
        if t.is_alive():
          self.stuck = True
    finally:
      _active[0] = None
    return self


def run_solo(program, trace=True):
  """Runs one program alone (in a managed thread, so thread-local state is fresh)."""
  sc = Scenario([program], trace=trace).run()
  return sc.threads[0]
