"""Leaf values: JSON encoding/decoding and Hypothesis strategies by profile."""

import math

from hypothesis import strategies as st

from harness.vuni import things


def enc(x):
  """Encode a leaf value as JSON-able data."""
  if x is None or isinstance(x, bool):
    return x
  if isinstance(x, int):
    return x if abs(x) < 2**53 else {'$i': str(x)}
  if isinstance(x, str):
    try:
      x.encode('utf-8')
      return x
    except UnicodeEncodeError:
      return {'$s': [ord(c) for c in x]}
  if isinstance(x, float):
    return {'$f': repr(x)}
  if isinstance(x, complex):
    return {'$c': [repr(x.real), repr(x.imag)]}
  if isinstance(x, bytes):
    return {'$b': x.hex()}
  if x is Ellipsis:
    return {'$ell': 1}
  if isinstance(x, things.Color):
    return {'$e': x.name}
  if isinstance(x, slice):
    return {'$sl': [enc(x.start), enc(x.stop), enc(x.step)]}
  if type(x) is tuple:
    return {'$t': [enc(e) for e in x]}
  raise TypeError(f'cannot encode leaf {x!r}')


def dec(j):
  if isinstance(j, dict):
    if '$i' in j:
      return int(j['$i'])
    if '$s' in j:
      return ''.join(chr(c) for c in j['$s'])
    if '$f' in j:
      return float(j['$f'])
    if '$c' in j:
      return complex(float(j['$c'][0]), float(j['$c'][1]))
    if '$b' in j:
      return bytes.fromhex(j['$b'])
    if '$ell' in j:
      return Ellipsis
    if '$e' in j:
      return things.Color[j['$e']]
    if '$sym' in j:
      return things.resolve_symbol(j['$sym'])
    if '$t' in j:
      return tuple(dec(v) for v in j['$t'])
    if '$sl' in j:
      return slice(*[dec(v) for v in j['$sl']])
    if '$nv' in j:
      import fiddle as fdl
      return fdl.NO_VALUE
    raise ValueError(f'bad leaf encoding {j!r}')
  return j


_small_int = st.integers(-5, 20)
_ident_str = st.sampled_from(['', 'x', 'y', 'abc', 'hello world', 'd_a', "it's", 'a"b', 'π', 'a\nb'])
_special_floats = st.sampled_from([0.0, -0.0, 1.5, -2.25, 1e300, 5e-324, math.inf, -math.inf, math.nan, 0.1])


def leaf(profile='plain'):
  """Strategy of *encoded* leaves."""
  if profile == 'plain':  # nan-free, cheap, hashable literals
    return st.one_of(_small_int, _ident_str, st.none(), st.booleans(),
                     st.sampled_from([1.5, -0.0, 2.0]).map(enc))
  if profile == 'plain_nan':  # 'plain' and now and then a NaN (a value that is not equal to itself)
    return st.sampled_from(range(10)).flatmap(
        lambda i: st.just(enc(math.nan)) if i == 0 else leaf('plain'))
  if profile == 'any':
    return st.one_of(
        _small_int, st.integers().map(enc), _ident_str, st.text(max_size=6).map(enc),
        st.none(), st.booleans(), _special_floats.map(enc),
        st.floats(allow_nan=False).map(enc),
        st.binary(max_size=6).map(enc),
        st.sampled_from(list(things.Color)).map(enc),
        st.just(Ellipsis).map(enc),
        st.complex_numbers(allow_nan=False, allow_infinity=False, max_magnitude=1e6).map(enc),
        # multi-line text with carriage returns (a source-code tokenizer normalises raw CR / CRLF)
        st.sampled_from(['line1\r\nline2\r\n', 'a\rb\nc', '"""\n\r', 'tab\there\nand\\n']).map(enc),
    )
  if profile == 'any_enum':  # 'any' plus members of a nested enum and of a same-named top-level enum
    return st.one_of(leaf('any'), leaf('any'), st.sampled_from([
        {'$sym': 'things:Outer.Mode.FAST'}, {'$sym': 'things:Outer.Mode.SLOW'},
        {'$sym': 'things:Mode.FAST'}, {'$sym': 'things:Mode.SLOW'},
        # members of enums with an int / str mix-in
        {'$sym': 'things:Prec.HALF'}, {'$sym': 'things:Kind.SPARSE'}]))
  if profile == 'nan_free':
    return st.one_of(
        _small_int, st.integers().map(enc), _ident_str, st.text(max_size=6).map(enc),
        st.none(), st.booleans(), st.floats(allow_nan=False).map(enc),
        st.binary(max_size=6).map(enc), st.sampled_from(list(things.Color)).map(enc),
    )
  if profile == 'serializable':
    esc_bytes = st.sampled_from([b'\\u0041', b'\\x41', b'\\U00000041', b'a\\nb', b'\\', b'\xff\\u00e9',
                                 b'\\N{DASH}', b'', b'plain', bytes(range(256))])
    surrogates = st.sampled_from(['\ud800', 'a\udfffb', '\x00', '\u2028', 'é', '😀'])
    return st.one_of(
        _small_int, st.integers().map(enc), _ident_str, st.text(max_size=6).map(enc),
        surrogates.map(enc), st.none(), st.booleans(), _special_floats.map(enc),
        st.floats().map(enc), st.binary(max_size=6).map(enc), esc_bytes.map(enc),
        st.sampled_from(list(things.Color)).map(enc),
        st.sampled_from([slice(None), slice(1, 2), slice(0, 10, 2), slice('a', None, 1.5)]).map(enc),
        st.just({'$nv': 1}),
        st.just({'$sym': 'things:CONST_OBJ'}), st.just({'$sym': 'things:f2'}),
        st.just({'$sym': 'things:Base'}), st.just({'$sym': 'things:DICT_OBJ'}),
        st.just({'$sym': 'things:DICT_OBJ_NEW'}), st.just({'$sym': 'things:FRAC_3_2'}), st.just({'$sym': 'things:DICT_OBJ_GUARD'}),
    )
  if profile == 'hashable_ser':  # dict keys / set elements
    return st.one_of(
        _small_int, st.integers().map(enc), _ident_str, st.text(max_size=4).map(enc),
        st.none(), st.booleans(), st.sampled_from([1.5, -0.0, 0.0, 2.0, math.inf]).map(enc),
        st.binary(max_size=4).map(enc), st.sampled_from(list(things.Color)).map(enc),
    )
  if profile == 'literal':  # repr round-trips through ast.literal_eval
    return st.one_of(
        _small_int, st.integers().map(enc), _ident_str,
        st.text(max_size=6).map(enc), st.none(), st.booleans(),
        st.floats(allow_nan=False, allow_infinity=False).map(enc),
        st.binary(max_size=6).map(enc),
    )
  raise ValueError(profile)
