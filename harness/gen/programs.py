"""Program grammar for auto_config (C11): JSON AST -> module source text.

expr := ["lit", repr] | ["var", name] | ["list", [e]] | ["tuple", [e]] | ["dict", [[repr_key, e]]]
      | ["call", fname, [e], {kw: e}, [e]|None (star), {k: e}|None (double star)]
      | ["partial", fname, [e], {kw: e}] | ["partial2", expr(partial), {kw: e}]
      | ["afpartial", fname, {kw: factory_fname | expr(partial)}]
      | ["helper", idx, [e]] | ["exempt", fname, [e], {kw: e}]
      | ["tags", e, tagname] | ["builtin", name, [e]]
      | ["ifexp", cond_name, e, e] | ["listcomp", fname, kwname, n] | ["dictcomp", fname, kwname, n]
stmt := ["assign", name, e] | ["return", e] | ["if", cond_name, [stmt], [stmt]]
      | ["forappend", listvar, n, fname, kwname]
"""

from hypothesis import strategies as st

# callable name -> (positional-or-keyword params in order, kwonly params, has varargs, has varkw, required)
FUNCS = {
    'things.f2': (['x', 'y', 'child'], [], False, False, []),
    'things.h1': (['a', 'b', 'c', 'd', 'e'], [], False, False, []),
    'things.g3': (['a', 'b'], ['k'], True, True, ['a']),
    'things.Base': (['x', 'y', 'child'], [], False, False, []),
    'things.LeafCls': (['x', 'y', 'child', 'extra'], [], False, False, []),
    'things.ident': (['x'], [], False, False, []),
    'things.CfgError': (['x', 'y', 'child'], [], False, False, []),
    'things.make_rec': (['tag'], [], False, False, []),
    'things.Statics.smake': (['x', 'y'], [], False, False, []),
    'things.Statics.cmake': (['x', 'y'], [], False, False, []),
}
FACTORIES = ['things.make_list', 'things.make_rec', 'things.ident']
# factories with bound arguments (functools.partial inside arg_factory.partial becomes an ArgFactory)
BOUND_FACTORIES = ['functools.partial(things.g3, 1, 2, 3)', 'functools.partial(things.po2, 7)',
                   'functools.partial(things.g3, 1, k=2)', 'functools.partial(things.po2, 7, 8, a=9)',
                   'functools.partial(things.make_rec, tag=5)']
_LITS = ['1', '2', "'s'", 'None', 'True', '2.5', "'x y'", '(1, 2)', "b'b'"]


def render_expr(e):
  k = e[0]
  if k == 'lit':
    return e[1]
  if k == 'var':
    return e[1]
  if k == 'list':
    return '[' + ', '.join(render_expr(x) for x in e[1]) + ']'
  if k == 'tuple':
    inner = ', '.join(render_expr(x) for x in e[1])
    return '(' + inner + (',' if len(e[1]) == 1 else '') + ')'
  if k == 'dict':
    return '{' + ', '.join(f'{kk}: {render_expr(v)}' for kk, v in e[1]) + '}'
  if k in ('call', 'exempt'):
    fname, pos, kw = e[1], e[2], e[3]
    parts = [render_expr(x) for x in pos]
    if k == 'call' and e[4] is not None:
      parts.append('*[' + ', '.join(render_expr(x) for x in e[4]) + ']')
    parts += [f'{n}={render_expr(v)}' for n, v in kw.items()]
    if k == 'call' and e[5] is not None:
      parts.append('**{' + ', '.join(f'{n!r}: {render_expr(v)}' for n, v in e[5].items()) + '}')
    head = f'auto_config.exempt({fname})' if k == 'exempt' else fname
    return f'{head}(' + ', '.join(parts) + ')'
  if k == 'partial':
    parts = [e[1]] + [render_expr(x) for x in e[2]] + [f'{n}={render_expr(v)}' for n, v in e[3].items()]
    return 'functools.partial(' + ', '.join(parts) + ')'
  if k == 'partial2':
    parts = [render_expr(e[1])] + [f'{n}={render_expr(v)}' for n, v in e[2].items()]
    return 'functools.partial(' + ', '.join(parts) + ')'
  if k == 'partialv':
    parts = [e[1]] + [f'{n}={render_expr(v)}' for n, v in e[2].items()]
    return ('arg_factory.partial(' if e[3] else 'functools.partial(') + ', '.join(parts) + ')'
  if k == 'afpartial':
    parts = [e[1]] + [f'{n}={v if isinstance(v, str) else render_expr(v)}' for n, v in e[2].items()]
    return 'arg_factory.partial(' + ', '.join(parts) + ')'
  if k == 'helper':
    return f'helper{e[1]}(' + ', '.join(render_expr(x) for x in e[2]) + ')'
  if k == 'tags':
    return f'with_tags.with_tags({render_expr(e[1])}, vtags.{e[2]})'
  if k == 'builtin':
    return f'{e[1]}(' + ', '.join(render_expr(x) for x in e[2]) + ')'
  if k == 'ifexp':
    return f'({render_expr(e[2])} if {e[1]} else {render_expr(e[3])})'
  if k == 'listcomp':
    return f'[{e[1]}({e[2]}=i) for i in range({e[3]})]'
  if k == 'dictcomp':
    return f'{{i: {e[1]}({e[2]}=i) for i in range({e[3]})}}'
  raise ValueError(k)


def render_stmts(stmts, indent):
  out = []
  pad = ' ' * indent
  for s in stmts:
    if s[0] == 'assign':
      out.append(f'{pad}{s[1]} = {render_expr(s[2])}')
    elif s[0] == 'return':
      out.append(f'{pad}return {render_expr(s[1])}')
    elif s[0] == 'if':
      out.append(f'{pad}if {s[1]}:')
      out += render_stmts(s[2], indent + 2) or [f'{pad}  pass']
      out.append(f'{pad}else:')
      out += render_stmts(s[3], indent + 2) or [f'{pad}  pass']
    elif s[0] == 'forappend':
      out.append(f'{pad}{s[1]} = []')
      out.append(f'{pad}for i in range({s[2]}):')
      out.append(f'{pad}  {s[1]}.append({s[3]}({s[4]}=i))')
    else:
      raise ValueError(s[0])
  return out


HEADER = '''import functools
import fiddle as fdl
from fiddle import arg_factory
from fiddle.experimental import auto_config
from fiddle._src.experimental import with_tags
from harness.vuni import things
from harness.vuni import tags as vtags
'''


def render_program(p):
  """Returns module source.  Defines `target` (decorated) and `plain` (undecorated twin)."""
  lines = [HEADER]
  for i, h in enumerate(p['helpers']):
    deco = '@auto_config.auto_config' + ('(experimental_always_inline=%s)' % h['inline'] if h['inline'] is not None else '')
    lines.append(deco)
    lines.append(f'def helper{i}(p=1):')
    lines += render_stmts(h['body'], 2)
    lines.append('')
  opts = 'experimental_allow_control_flow=True' if p['control_flow'] else ''
  deco = '@auto_config.auto_config' + (f'({opts})' if opts else '')
  params = 'a, b=' + p['b_default']
  form = p['form']
  body = render_stmts(p['body'], 2)
  if form == 'plain':
    lines += [deco, f'def target({params}):'] + body + ['']
    lines += [f'def plain({params}):'] + body + ['']
  elif form == 'closure':
    rebind = [f'  cv = {p["cv2"]}'] if p.get('cv2') else []
    lines += [f'def _outer(cv):', f'  {deco}', f'  def inner({params}):'] + ['  ' + l for l in body] + rebind + ['  return inner', '']
    lines += [f'def _outer_plain(cv):', f'  def inner({params}):'] + ['  ' + l for l in body] + rebind + ['  return inner', '']
    lines += [f'target = _outer({p["cv"]})', f'plain = _outer_plain({p["cv"]})', '']
  elif form == 'lambda':
    expr = render_expr(p['body'][-1][1])
    call = f'auto_config.auto_config({opts + ", " if opts else ""}fn=lambda {params}: {expr})' if False else None
    lines += [f'target = auto_config.auto_config(lambda {params}: {expr}' + (f', {opts}' if opts else '') + ')',
              f'plain = lambda {params}: {expr}', '']
  elif form in ('static', 'class'):
    d2 = '@staticmethod' if form == 'static' else '@classmethod'
    first = '' if form == 'static' else 'cls, '
    lines += ['class K:', f'  {deco}', f'  {d2}', f'  def make({first}{params}):'] + ['  ' + l for l in body] + ['']
    lines += ['class KP:', f'  {d2}', f'  def make({first}{params}):'] + ['  ' + l for l in body] + ['']
    lines += ['target = K.make', 'plain = KP.make', '']
  else:
    raise ValueError(form)
  return '\n'.join(lines) + '\n'


# ---------------------------------------------------------------------------
# strategies


@st.composite
def exprs(draw, depth, names, helpers, control_flow, allow_partial=True, pvars=()):
  lit = st.sampled_from(_LITS).map(lambda s: ['lit', s])
  if depth <= 0:
    opts = [lit]
    if names:
      opts.append(st.sampled_from(names).map(lambda n: ['var', n]))
    return draw(st.one_of(*opts))
  sub = lambda: draw(exprs(depth - 1, names, helpers, control_flow, allow_partial, pvars))
  kinds = ['call', 'call', 'call', 'lit', 'list', 'tuple', 'dict', 'tags', 'builtin']
  if names:
    kinds += ['var', 'var', 'var', 'var']
  if allow_partial:
    kinds += ['partial', 'afpartial', 'partial2']
  if helpers:
    kinds += ['helper']
  if pvars:
    kinds += ['partialv', 'partialv', 'partialv']
  kinds += ['exempt']
  if control_flow:
    kinds += ['ifexp', 'listcomp', 'dictcomp']
  kind = draw(st.sampled_from(kinds))
  if kind == 'lit':
    return draw(lit)
  if kind == 'var':
    return ['var', draw(st.sampled_from(names))]
  if kind in ('list', 'tuple'):
    return [kind, [sub() for _ in range(draw(st.integers(0, 3)))]]
  if kind == 'dict':
    keys = draw(st.lists(st.sampled_from(["'k'", "'j'", '1']), unique=True, max_size=2))
    return ['dict', [[k, sub()] for k in keys]]
  if kind == 'exempt':
    # exempted calls run for real in both paths: only pure-Python (literal) arguments are in
    # the supported subset (a Config or TaggedValue argument would be received un-built)
    fname = draw(st.sampled_from(['things.f2', 'things.ident', 'things.make_rec', 'things.Base']))
    pk = FUNCS[fname][0]
    # parameters of the target function: always plain values (a helper's parameter `p` may be handed a
    # configuration, which an exempted call would receive un-built: outside the supported subset)
    params = [n for n in names if n in ('a', 'b')]
    simple = st.one_of(lit, st.sampled_from(params).map(lambda n: ['var', n])) if params else lit
    npos = draw(st.integers(0, len(pk)))
    pos = [draw(simple) for _ in range(npos)]
    kw = {n: draw(simple) for n in pk[npos:] if draw(st.booleans())}
    return ['exempt', fname, pos, kw]
  if kind in ('call', 'partial'):
    fname = draw(st.sampled_from(sorted(FUNCS)))
    pk, ko, va, vk, req = FUNCS[fname]
    npos = draw(st.integers(0, len(pk)))
    if req and npos == 0 and draw(st.booleans()):
      npos = 1
    pos = [sub() for _ in range(npos)]
    kw = {}
    for n in pk[npos:] + ko:
      if n in req or draw(st.floats(0, 1)) < 0.35:
        kw[n] = sub()
    star, dstar = None, None
    if kind == 'call':
      if va and npos == len(pk) and draw(st.booleans()):
        if draw(st.booleans()):
          pos += [sub() for _ in range(draw(st.integers(1, 2)))]
        else:
          star = [sub() for _ in range(draw(st.integers(1, 2)))]
      elif not va and npos < len(pk) and draw(st.floats(0, 1)) < 0.15:
        # star-splat the remaining positional prefix
        k = draw(st.integers(1, len(pk) - npos))
        star = [sub() for _ in range(k)]
        for n in pk[npos:npos + k]:
          kw.pop(n, None)
      if vk and draw(st.booleans()):
        dstar = {'z0': sub()}
      elif not vk and draw(st.floats(0, 1)) < 0.15:
        cands = [n for n in pk[npos + (len(star) if star and not va else 0):] + ko if n not in kw]
        if cands:
          dstar = {draw(st.sampled_from(cands)): sub()}
      return ['call', fname, pos, kw, star, dstar]
    return ['partial', fname, pos, kw]
  if kind == 'partialv':
    vname, fname = draw(st.sampled_from(list(pvars)))
    pk = FUNCS[fname][0]
    n = draw(st.sampled_from(pk))
    if draw(st.floats(0, 1)) < 0.25:
      return ['partialv', vname, {n: ['lit', draw(st.sampled_from(FACTORIES))]}, True]
    return ['partialv', vname, {n: sub()}, False]
  if kind == 'partial2':
    fname = draw(st.sampled_from(['things.f2', 'things.h1', 'things.Base']))
    pk = FUNCS[fname][0]
    k1 = {pk[0]: sub()}
    k2 = {draw(st.sampled_from(pk[1:])): sub()}
    return ['partial2', ['partial', fname, [], k1], k2]
  if kind == 'afpartial':
    fname = draw(st.sampled_from(['things.f2', 'things.h1', 'things.Base', 'things.ident']))
    pk = FUNCS[fname][0]
    names_ = draw(st.lists(st.sampled_from(pk), unique=True, min_size=1, max_size=2))
    facs = {n: draw(st.sampled_from(FACTORIES + BOUND_FACTORIES)) for n in names_}
    if names and draw(st.booleans()):
      # a factory with an argument bound to a variable that is (possibly) used elsewhere as well
      facs[names_[0]] = ['partial', 'things.make_rec', [], {'tag': ['var', draw(st.sampled_from(names))]}]
    if helpers and draw(st.booleans()):
      # the factory is itself an auto_config function (argument-free: its parameter has a default)
      facs[names_[-1]] = f'helper{draw(st.integers(0, helpers - 1))}'
    return ['afpartial', fname, facs]
  if kind == 'helper':
    return ['helper', draw(st.integers(0, helpers - 1)), [sub()] if draw(st.booleans()) else []]
  if kind == 'tags':
    return ['tags', sub(), draw(st.sampled_from(['TagA', 'TagB', 'TagX']))]
  if kind == 'builtin':
    b = draw(st.sampled_from(['list', 'tuple', 'len', 'dict']))
    if b == 'dict':
      return ['builtin', 'dict', []]
    return ['builtin', b, [['list', [sub() for _ in range(draw(st.integers(0, 2)))]]]]
  if kind == 'ifexp':
    return ['ifexp', draw(st.sampled_from(['a', 'b'])), sub(), sub()]
  fname = draw(st.sampled_from(['things.ident', 'things.f2', 'things.Base']))
  return [kind, fname, 'x', draw(st.integers(0, 3))]


def _has_call(e):
  if isinstance(e, list):
    if e and e[0] in ('call', 'helper', 'partial', 'partial2', 'partialv', 'afpartial', 'listcomp', 'dictcomp'):
      return True
    return any(_has_call(x) for x in e)
  if isinstance(e, dict):
    return any(_has_call(x) for x in e.values())
  return False


@st.composite
def programs(draw):
  control_flow = draw(st.floats(0, 1)) < 0.35
  nh = draw(st.integers(0, 2))
  helpers = []
  for _ in range(nh):
    body = [['return', draw(exprs(2, ['p'], 0, False).filter(_has_call))]]
    helpers.append({'inline': draw(st.sampled_from([None, True, False])), 'body': body})
  form = draw(st.sampled_from(['plain', 'plain', 'closure', 'lambda', 'static', 'class']))
  names = ['a', 'b'] + (['cv'] if form == 'closure' else [])
  body = []
  pvars = []
  if form != 'lambda':
    for i in range(draw(st.integers(0, 4))):
      if control_flow and draw(st.floats(0, 1)) < 0.3:
        if draw(st.booleans()):
          v = f'v{i}'
          body.append(['if', draw(st.sampled_from(['a', 'b'])),
                       [['assign', v, draw(exprs(2, names, nh, control_flow))]],
                       [['assign', v, draw(exprs(1, names, nh, control_flow))]]])
          names = names + [v]
        else:
          v = f'l{i}'
          body.append(['forappend', v, draw(st.integers(0, 3)),
                       draw(st.sampled_from(['things.ident', 'things.f2'])), 'x'])
          names = names + [v]
      else:
        v = f'v{i}'
        if draw(st.floats(0, 1)) < 0.25:
          fname = draw(st.sampled_from(['things.f2', 'things.h1', 'things.Base']))
          pk = FUNCS[fname][0]
          e = ['partial', fname, [], {draw(st.sampled_from(pk)): draw(exprs(1, names, nh, control_flow, True, tuple(pvars)))}]
          pvars.append((v, fname))
        else:
          e = draw(exprs(2, names, nh, control_flow, True, tuple(pvars)))
        body.append(['assign', v, e])
        names = names + [v]
  ret = draw(exprs(3, names, nh, control_flow, True, tuple(pvars)).filter(_has_call))
  nested_ret = draw(st.sampled_from(range(8))) == 0
  if nested_ret:
    # round 8: the returned structure nests several dicts, the earlier ones hold plain values
    # only and the configurable calls sit in the last one (as_buildable must still find them)
    plain = [['dict', [["'k'", ['lit', draw(st.sampled_from(_LITS))]]]]
             for _ in range(draw(st.integers(1, 2)))]
    last = ['dict', [["'j'", ret]]]
    outer = draw(st.sampled_from(['dict', 'list', 'tuple']))
    if outer == 'dict':
      ret = ['dict', [[f"'d{i}'", e] for i, e in enumerate(plain + [last])]]
    else:
      ret = [outer, plain + [last]]
  body.append(['return', ret])
  return {
      'helpers': helpers, 'control_flow': control_flow, 'form': form, 'body': body, 'nested_ret': nested_ret,
      'b_default': draw(st.sampled_from(_LITS)), 'cv': draw(st.sampled_from(_LITS)),
      'cv2': draw(st.sampled_from([None] + _LITS)) if form == 'closure' else None,
      'args': [draw(st.sampled_from(_LITS))] + ([draw(st.sampled_from(_LITS))] if draw(st.booleans()) else []),
  }
