"""Generic DAG recipes with explicit aliasing choices (used by C02, C05-C08, ...).

Adds to the recipe node kinds of gen/recipes.py:
  {"k":"copyof","of":idx}   equal-but-distinct: node `of` constructed a second time
                            (new object, same children by identity)
  {"k":"box","items":[ref]} vuni.boxes.Box
  {"k":"ddict","factory":name|None,"keys":[..],"items":[ref]}  collections.defaultdict
  {"k":"set","items":[leafenc]} / {"k":"fset",...}
"""

import collections
import os

from hypothesis import strategies as st

from harness.gen import leaves, recipes
from harness.vuni import boxes, things

# simple callables: name -> (uid param, other keyword params)
SIMPLE = {
    'things:f2': ('x', ['y', 'child']),
    'things:h1': ('a', ['b', 'c', 'd', 'e']),
    'things:Base': ('x', ['y', 'child']),
    'things:Mid': ('x', ['y', 'child']),
    'things:LeafCls': ('x', ['y', 'child', 'extra']),
    'things:Other': ('x', ['y', 'child']),
    'things:ident': ('x', []),
    'things:annotated_fn': ('x', ['y', 'child']),
    'things:mutdef': ('c', ['a', 'b']),
    'things:mutdef1': ('c', ['a', 'other']),
    'things:mutnest': ('c', ['a', 'other']),
    'things:kwdef': ('a', ['scale', 'child']),
    'things:DataLoader': ('x', ['child']),
    'things:data_loader': ('x', ['child']),
    'things:mutating': ('x', ['child']),
    'things:kwf': ('a', ['z0', 'z1']),
    'things:kwnames': ('x', ['_from', '_in', 'child']),
    'things:Lambda': ('x', ['y']),
    'things:SubCM.make': ('x', ['y', 'child']),
    'things:BaseCM.make': ('x', ['y', 'child']),
    'things:kwg': ('a', ['z0', 'z1']),
}

_FACTORIES = {'list': list, 'int': int, 'make_list': things.make_list, None: None}


def build_node_ext(node, objs, notes=None):
  k = node['k']
  if k == 'copyof':
    return build_node_ext(_resolve_copy(node, objs), objs, notes)
  if k == 'box':
    return boxes.Box([recipes.deref(r, objs) for r in node['items']])
  if k == 'ddict':
    d = collections.defaultdict(_FACTORIES[node['factory']])
    for kk, r in zip(node['keys'], node['items']):
      d[leaves.dec(kk)] = recipes.deref(r, objs)
    return d
  if k == 'odict':   # a dict subclass: not traversed by daglish, i.e. a mutable leaf
    return collections.OrderedDict((leaves.dec(kk), leaves.dec(v)) for kk, v in zip(node['keys'], node['vals']))
  if k == 'dcinst':  # a plain dataclass *instance* (opaque for the default registry)
    return things.DCPlain(**{n: recipes.deref(r, objs) for n, r in node['attrs'].items()})
  if k == 'holder':
    return things.DictObj(**{n: recipes.deref(r, objs) for n, r in node['attrs'].items()})
  if k == 'set':      # 'elems' (leaf encodings, not refs); 'items' is read for old replay files
    return {leaves.dec(v) for v in node.get('elems', node.get('items', []))}
  if k == 'fset':
    return frozenset(leaves.dec(v) for v in node.get('elems', node.get('items', [])))
  return recipes.build_node(node, objs, notes)


_NODES_CTX = []


def _resolve_copy(node, objs):
  return _NODES_CTX[-1][node['of']]


def build(recipe, notes=None):
  objs = []
  _NODES_CTX.append(recipe['nodes'])
  try:
    for node in recipe['nodes']:
      n = node
      while n['k'] == 'copyof':
        n = recipe['nodes'][n['of']]
      objs.append(build_node_ext(n, objs, notes))
  finally:
    _NODES_CTX.pop()
  return objs[recipe['root']], objs


@st.composite
def dag(draw, *, max_nodes=12, leaf_profile='plain', kinds=None, p_alias=0.55,
        bts=('Config',), fns=None, allow_copyof=True, root_kinds=None, tags=False,
        min_nodes=1, uid=True, chain_bias=False, clear_ann_tags=False):
  """Draws a recipe {"nodes", "root"}.

  kinds: weights list of node kinds among B, list, tuple, dict, nt, box, ddict.
  """
  leaf_st = leaves.leaf(leaf_profile)
  kinds = kinds or ['B', 'B', 'B', 'list', 'tuple', 'dict', 'nt', 'box']
  if os.environ.get('VERIF_EXTRA_KINDS'):   # experiment hook: widen a check's node kinds from outside
    kinds = list(kinds) + [k for k in os.environ['VERIF_EXTRA_KINDS'].split(',') if k not in kinds]
  fns = fns or ['things:f2', 'things:h1', 'things:Base', 'things:LeafCls', 'things:Other']
  n = draw(st.integers(min_nodes, max_nodes))
  nodes = []
  uid_counter = 0
  for i in range(n):
    last = i == n - 1
    kind = draw(st.sampled_from(root_kinds if (last and root_kinds) else kinds))
    if i == 0 and kind not in ('B',):
      kind = 'B' if 'B' in kinds else kind
    if allow_copyof and i > 0 and not last and draw(st.floats(0, 1)) < 0.12:
      cands = [j for j, nd in enumerate(nodes) if nd['k'] in ('B', 'list', 'dict', 'tuple', 'set')]
      if cands:
        nodes.append({'k': 'copyof', 'of': draw(st.sampled_from(cands))})
        continue
    nav = len(nodes)

    def ref():
      if chain_bias and nav and draw(st.floats(0, 1)) < 0.7:
        return nav - 1
      return recipes.child_ref(draw, nav, leaf_st, p_alias=p_alias)

    if kind == 'B':
      fn = draw(st.sampled_from(fns))
      uidp, others = SIMPLE[fn]
      kw = {}
      if uid:
        kw[uidp] = {'leaf': f'uid{uid_counter}'}
        uid_counter += 1
      for pname in others:
        if draw(st.floats(0, 1)) < 0.6:
          kw[pname] = ref()
      node = {'k': 'B', 'bt': draw(st.sampled_from(list(bts))), 'fn': {'kind': 'sym', 'name': fn},
              'pos': [], 'kw': kw, 'edits': []}
      if tags and draw(st.floats(0, 1)) < 0.4:
        node['tags'] = [[draw(st.sampled_from([uidp] + others)),
                         draw(st.sampled_from(['TagA', 'TagB', 'TagC', 'TagX']))]
                        for _ in range(draw(st.integers(1, 2)))]
    elif kind == 'Bpos':
      pos = [ref() for _ in range(draw(st.integers(1, 4)))]
      kw = {}
      if draw(st.booleans()):
        kw['k'] = ref()
      if draw(st.booleans()):
        kw['z0'] = ref()
      node = {'k': 'B', 'bt': draw(st.sampled_from(list(bts))), 'fn': {'kind': 'sym', 'name': 'things:g3'},
              'pos': pos, 'kw': kw, 'edits': []}
      if len(pos) >= 3 and draw(st.sampled_from(range(4))) == 0:
        node['edits'].append(['delitem', 1])   # the defaulted parameter b is unset although *args has values
      if tags and draw(st.floats(0, 1)) < 0.5:
        key = draw(st.sampled_from(['a', 'b', 'k'] + list(range(len(pos)))))
        node['tags'] = [[key, draw(st.sampled_from(['TagA', 'TagB', 'TagC', 'TagX']))]]
    elif kind == 'Bpo':
      pos = []
      for d in ['d_p0', 'd_p1'][: draw(st.integers(0, 2))]:
        pos.append({'leaf': d} if draw(st.booleans()) else ref())
      kw = {'a': ref()} if draw(st.booleans()) else {}
      node = {'k': 'B', 'bt': draw(st.sampled_from(list(bts))), 'fn': {'kind': 'sym', 'name': 'things:po2'},
              'pos': pos, 'kw': kw, 'edits': []}
      if tags and draw(st.booleans()):
        node['tags'] = [[draw(st.sampled_from([0, 1, 'a'])), draw(st.sampled_from(['TagA', 'TagB', 'TagX']))]]
    elif kind == 'Bdictcfg':
      # experimental DictConfig: a Config subclass that builds a dict from arbitrary keyword arguments
      names_ = draw(st.lists(st.sampled_from(['x', 'y', 'child', 'k1', 'k2']), unique=True, min_size=1, max_size=4))
      kw = {nm: ref() for nm in names_}
      node = {'k': 'B', 'bt': draw(st.sampled_from(['DictConfig', 'NamespaceConfig'])),
              'fn': {'kind': 'sym', 'name': 'things:f2'}, 'pos': [], 'kw': kw, 'edits': []}
      if draw(st.booleans()):
        # a key set by attribute assignment (also one named like the **kwargs parameter)
        nm = draw(st.sampled_from(['kwargs', 'late']))
        node['edits'].append(['setattr', nm, ref()])
        names_ = names_ + [nm]
      if tags and draw(st.booleans()):
        node['tags'] = [[draw(st.sampled_from(names_)), draw(st.sampled_from(['TagA', 'TagB', 'TagX']))]]
    elif kind == 'Bclash':
      # f(p0='d_p0', /, **kw) configured as f(v, p0=w): the **kwargs entry is named like the
      # positional-only parameter
      node = {'k': 'B', 'bt': draw(st.sampled_from(list(bts))), 'fn': {'kind': 'fn', 'code': 'p1k0d1nqw'},
              'pos': [ref()], 'kw': {'p0': ref()}, 'edits': []}
    elif kind == 'Bpo3':
      # required positional-only parameter followed by defaulted positional-only ones
      pos = [ref()]
      for d in ['d_p1', 'd_p2'][: draw(st.integers(0, 2))]:
        pos.append({'leaf': d} if draw(st.booleans()) else ref())
      kw = {'a': ref()} if draw(st.booleans()) else {}
      node = {'k': 'B', 'bt': draw(st.sampled_from(list(bts))), 'fn': {'kind': 'sym', 'name': 'things:po3'},
              'pos': pos, 'kw': kw, 'edits': []}
    elif kind == 'Bdc':
      kw = {}
      for pn in ('u', 'v', 'w'):
        if draw(st.floats(0, 1)) < 0.4:
          kw[pn] = ref()
      node = {'k': 'B', 'bt': draw(st.sampled_from(list(bts))), 'fn': {'kind': 'sym', 'name': 'things:DCPlain'},
              'pos': [], 'kw': kw, 'edits': []}
    elif kind == 'Bempty':
      # a Buildable with tags but no argument values
      node = {'k': 'B', 'bt': draw(st.sampled_from(list(bts))), 'fn': {'kind': 'sym', 'name': 'things:f2'},
              'pos': [], 'kw': {}, 'edits': []}
      if tags:
        node['tags'] = [[draw(st.sampled_from(['x', 'y', 'child'])), draw(st.sampled_from(['TagA', 'TagB', 'TagX']))]
                        for _ in range(draw(st.integers(1, 2)))]
    elif kind == 'Bann':
      pos = [ref() for _ in range(draw(st.integers(0, 3)))]
      kw = {}
      if draw(st.booleans()):
        kw['k'] = ref()
      if draw(st.booleans()):
        kw['z0'] = ref()
      node = {'k': 'B', 'bt': draw(st.sampled_from(list(bts))),
              'fn': {'kind': 'sym', 'name': 'things:annotated_po'}, 'pos': pos, 'kw': kw, 'edits': []}
      if tags and draw(st.booleans()):
        node['tags'] = [[draw(st.sampled_from(['a', 'k', 'z0', 0, 1, 2, 3])),
                         draw(st.sampled_from(['TagA', 'TagB', 'TagC', 'TagX']))]]
      if clear_ann_tags and draw(st.booleans()):
        # history: the tags an annotation put on a parameter are removed again
        node['edits'].append(['clear_tags', draw(st.sampled_from([0, 'a', 'k']))])
    elif kind == 'AFP':
      # a Partial with an ArgFactory argument (ArgFactory is only valid inside Partial)
      af_fn = draw(st.sampled_from(['things:make_list', 'things:make_rec', 'things:ident']))
      af_kw = {}
      if af_fn == 'things:make_rec' and draw(st.booleans()):
        af_kw['tag'] = ref()
      elif af_fn == 'things:ident' and draw(st.booleans()):
        af_kw['x'] = ref()
      nodes.append({'k': 'B', 'bt': 'ArgFactory', 'fn': {'kind': 'sym', 'name': af_fn}, 'pos': [], 'kw': af_kw, 'edits': []})
      af = len(nodes) - 1
      kw = {'x': {'leaf': f'uid{uid_counter}'}, 'y': af}
      uid_counter += 1
      if draw(st.booleans()):
        kw['child'] = ref()
      node = {'k': 'B', 'bt': 'Partial', 'fn': {'kind': 'sym', 'name': 'things:f2'}, 'pos': [], 'kw': kw, 'edits': []}
    elif kind == 'Bmut1':
      # explicit value equal to the (single) mutable default; often aliased by a sibling
      prev = [j for j, nd in enumerate(nodes) if nd['k'] == 'list' and nd.get('_eqdef')]
      if prev and draw(st.booleans()):
        lref = draw(st.sampled_from(prev))
      else:
        nodes.append({'k': 'list', 'items': [{'leaf': 'single-default'}], '_eqdef': True})
        lref = len(nodes) - 1
      kw = {'a': lref}
      if draw(st.sampled_from(range(4))) == 0:
        kw = {}      # the mutable default is left unset (several such nodes share the default object)
      if draw(st.booleans()):
        kw['other'] = lref if draw(st.booleans()) else ref()
      elif draw(st.booleans()):
        kw['a_done'] = lref
      node = {'k': 'B', 'bt': draw(st.sampled_from(list(bts))), 'fn': {'kind': 'sym', 'name': 'things:mutdef1'},
              'pos': [], 'kw': kw, 'edits': []}
    elif kind == 'Bmutnest':
      # explicit value equal to a nested mutable default; the inner list is also referenced elsewhere
      nodes.append({'k': 'list', 'items': [{'leaf': 'nested-default'}], '_eqdef': True})
      inner = len(nodes) - 1
      nodes.append({'k': 'dict', 'keys': ['k'], 'items': [inner]})
      outer = len(nodes) - 1
      kw = {'a': outer}
      if draw(st.booleans()):
        kw['other'] = inner
      node = {'k': 'B', 'bt': draw(st.sampled_from(list(bts))), 'fn': {'kind': 'sym', 'name': 'things:mutnest'},
              'pos': [], 'kw': kw, 'edits': []}
    elif kind == 'Bmut':
      kw = {'a': {'leaf': {'$sym': 'things:_MUTABLE_DEFAULT'}}}
      if draw(st.booleans()):
        kw['b'] = ref()
      elif draw(st.booleans()):
        kw['b'] = {'leaf': {'$sym': 'things:_MUTABLE_DEFAULT'}}
      node = {'k': 'B', 'bt': draw(st.sampled_from(list(bts))), 'fn': {'kind': 'sym', 'name': 'things:mutdef'},
              'pos': [], 'kw': kw, 'edits': []}
    elif kind in ('list', 'tuple'):
      node = {'k': kind, 'items': [ref() for _ in range(draw(st.integers(0, 3)))]}
    elif kind == 'dict':
      keys = draw(st.lists(st.sampled_from(['a', 'b', 'k', 1, 2]), unique=True, max_size=3))
      node = {'k': 'dict', 'keys': keys, 'items': [ref() for _ in keys]}
    elif kind == 'kdict':
      hs = leaves.leaf('hashable_ser')
      keyst = st.one_of(hs, st.lists(hs, max_size=2).map(lambda l: {'$t': l}))
      keys = draw(st.lists(keyst, min_size=1, max_size=3,
                           unique_by=lambda k: _hash_key(leaves.dec(k))))
      node = {'k': 'dict', 'keys': keys, 'items': [ref() for _ in keys]}
    elif kind in ('set', 'fset'):
      hs = leaves.leaf('hashable_ser')
      items = draw(st.lists(hs, max_size=4, unique_by=lambda k: _hash_key(leaves.dec(k))))
      node = {'k': kind, 'elems': items}
    elif kind == 'dcinst':
      # leaf fields only: for the default registry the instance is an opaque object that rebuilds pass
      # through by reference, so references from inside it to other nodes would not follow a rebuild
      node = {'k': 'dcinst', 'attrs': {n: {'leaf': draw(leaf_st)}
                                       for n in draw(st.lists(st.sampled_from(['u', 'v']), unique=True, min_size=1))}}
    elif kind == 'odict':
      keys = draw(st.lists(st.sampled_from(['a', 'b', 'k', 1]), unique=True, min_size=1, max_size=3))
      node = {'k': 'odict', 'keys': keys, 'vals': [draw(leaf_st) for _ in keys]}
    elif kind == 'holder':
      node = {'k': 'holder', 'attrs': {n: ref() for n in draw(st.lists(st.sampled_from(['inner', 'other']), unique=True, min_size=1))}}
    elif kind == 'ltuple':
      node = {'k': 'tuple', 'items': [{'leaf': draw(leaf_st)} for _ in range(draw(st.integers(1, 3)))]}
    elif kind == 'ntuple':
      lts = [j for j, nd in enumerate(nodes) if nd['k'] == 'tuple' and _internable_node(nodes, j)]
      items = []
      for _ in range(draw(st.integers(1, 3))):
        if lts and draw(st.booleans()):
          items.append(draw(st.sampled_from(lts)))
        else:
          items.append({'leaf': draw(leaf_st)})
      node = {'k': 'tuple', 'items': items}
    elif kind == 'mdict':
      keys = draw(st.lists(st.sampled_from(['a', 1, 'b', 2, None]), unique=True, min_size=2, max_size=3))
      node = {'k': 'dict', 'keys': keys, 'items': [ref() for _ in keys]}
    elif kind == 'ddict':
      keys = draw(st.lists(st.sampled_from(['a', 'b', 1]), unique=True, max_size=2))
      node = {'k': 'ddict', 'factory': draw(st.sampled_from(['list', 'int', 'make_list', None])),
              'keys': keys, 'items': [ref() for _ in keys]}
    elif kind == 'nt':
      which = draw(st.sampled_from(['Pair', 'Triple', 'PairSub', 'GenericNT']))
      if which in ('Pair', 'PairSub'):
        node = {'k': 'nt', 'type': which, 'items': [ref(), ref()]}
      elif which == 'GenericNT':
        node = {'k': 'nt', 'type': which, 'items': [ref() for _ in range(draw(st.integers(1, 2)))]}
      else:
        node = {'k': 'nt', 'type': 'Triple', 'items': [ref() for _ in range(draw(st.integers(1, 3)))]}
    elif kind == 'box':
      node = {'k': 'box', 'items': [ref() for _ in range(draw(st.integers(1, 3)))]}
    elif kind == 'TV':
      node = {'k': 'TV', 'tags': [draw(st.sampled_from(['TagA', 'TagB', 'TagC', 'TagX']))],
              'value': ref()}
    else:
      raise ValueError(kind)
    nodes.append(node)
  return {'nodes': nodes, 'root': len(nodes) - 1}


def _hash_key(v):
  """Python dict/set key identity: 1 == 1.0 == True, 0.0 == -0.0."""
  try:
    return ('h', hash(v), v)
  except TypeError:
    return ('u', repr(v))


def _internable_node(nodes, j):
  nd = nodes[j]
  if nd['k'] != 'tuple':
    return False
  return all(isinstance(r, dict) or _internable_node(nodes, r) for r in nd['items'])


def recipe_stats(recipe):
  """Aliasing statistics computed from the recipe itself."""
  refcount = collections.Counter()
  for nd in recipe['nodes']:
    n = nd
    for r in list(n.get('items', [])) + list(n.get('kw', {}).values()) + list(n.get('pos', [])):
      if isinstance(r, int):
        refcount[r] += 1
  return {
      'aliases': sum(1 for v in refcount.values() if v >= 2),
      'copyof': sum(1 for nd in recipe['nodes'] if nd['k'] == 'copyof'),
      'boxes': sum(1 for nd in recipe['nodes'] if nd['k'] == 'box'),
      'tvs': sum(1 for nd in recipe['nodes'] if nd['k'] == 'TV'),
      'n': len(recipe['nodes']),
  }
