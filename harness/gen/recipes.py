"""Recipes: configurations by construction (JSON data -> objects).

recipe := {"nodes": [node...], "root": idx}
node   := {"k":"leaf","v":leafenc}
        | {"k":"list"|"tuple","items":[ref...]}
        | {"k":"dict","keys":[leafenc...],"items":[ref...]}
        | {"k":"nt","type":"Pair"|"Triple","items":[ref...]}
        | {"k":"B","bt":"Config"|"Partial"|"ArgFactory","fn":fnspec,
           "pos":[ref...],"kw":{name:ref},"edits":[edit...],
           "tags":[[key,tagname]...]}
        | {"k":"TV","tags":[tagname...],"value":ref|None}
ref    := int (index of an EARLIER node: sharing by construction)
        | {"leaf": leafenc}
fnspec := {"kind":"fn"|"Cls"|"cm"|"sm"|"inst","code":shape}
        | {"kind":"DC","code":dcfields}
        | {"kind":"fpartial","code":shape,"nbind":n,"kbind":[names]}
        | {"kind":"sym","name":"things:f2"}
edit   := ["setattr",name,ref] | ["delattr",name]
        | ["setitem",idx,ref]  | ["delitem",idx]          idx: int | "V"
        | ["setslice",[start,stop,step],[ref...]] | ["delslice",[start,stop,step]]
"""

import collections
import functools
import inspect

import fiddle as fdl
from hypothesis import strategies as st

from harness.gen import leaves
from harness.vuni import sigs, tags as vtags, things


# ---------------------------------------------------------------------------
# resolving


def resolve_fn(spec):
  kind = spec['kind']
  if kind == 'fn':
    return getattr(sigs, 'fn_' + spec['code'])
  if kind == 'Cls':
    return getattr(sigs, 'Cls_' + spec['code'])
  if kind == 'cm':
    return getattr(sigs, 'Holder_' + spec['code']).cm
  if kind == 'sm':
    return getattr(sigs, 'Holder_' + spec['code']).sm
  if kind == 'inst':
    return getattr(sigs, 'inst_' + spec['code'])
  if kind == 'DC':
    return getattr(sigs, 'DC_' + spec['code'])
  if kind == 'fpartial':
    f = getattr(sigs, 'fn_' + spec['code'])
    return functools.partial(
        f, *[f'pb{i}' for i in range(spec['nbind'])],
        **{n: f'kb_{n}' for n in spec['kbind']})
  if kind == 'sym':
    return things.resolve_symbol(spec['name'])
  raise ValueError(spec)


class ParamInfo:
  """Signature facts from inspect (the harness' own reading)."""

  def __init__(self, fn):
    self.sig = inspect.signature(fn)
    ps = list(self.sig.parameters.values())
    self.params = ps
    self.posonly = [p.name for p in ps if p.kind == p.POSITIONAL_ONLY]
    self.poskw = [p.name for p in ps if p.kind == p.POSITIONAL_OR_KEYWORD]
    self.positional = self.posonly + self.poskw
    self.kwonly = [p.name for p in ps if p.kind == p.KEYWORD_ONLY]
    self.varargs = any(p.kind == p.VAR_POSITIONAL for p in ps)
    self.varkw = any(p.kind == p.VAR_KEYWORD for p in ps)
    self.varkw_name = next((p.name for p in ps if p.kind == p.VAR_KEYWORD), None)
    self.has_default = {p.name: p.default is not p.empty for p in ps}
    self.default = {p.name: p.default for p in ps if p.default is not p.empty}
    self.npos = len(self.positional)

  def key_of(self, i):
    """Storage key of positional slot i (< npos)."""
    return i if i < len(self.posonly) else self.positional[i]


VAR = fdl.VARARGS


def _idx(j):
  return VAR if j == 'V' else j


def _slice(sl):
  return slice(_idx(sl[0]), _idx(sl[1]), sl[2])


def deref(ref, objs):
  if isinstance(ref, int):
    return objs[ref]
  return leaves.dec(ref['leaf'])


def apply_edit(cfg, edit, objs):
  """Applies one edit; returns None or the exception raised."""
  op = edit[0]
  try:
    if op == 'setattr':
      setattr(cfg, edit[1], deref(edit[2], objs))
    elif op == 'delattr':
      delattr(cfg, edit[1])
    elif op == 'setitem':
      cfg[_idx(edit[1])] = deref(edit[2], objs)
    elif op == 'delitem':
      del cfg[_idx(edit[1])]
    elif op == 'setslice':
      cfg[_slice(edit[1])] = [deref(r, objs) for r in edit[2]]
    elif op == 'delslice':
      del cfg[_slice(edit[1])]
    elif op == 'clear_tags':
      fdl.clear_tags(cfg, edit[1])
    elif op == 'try_update_callable':
      # an attempt the library rejects (incompatible callable); the caller carries on
      try:
        fdl.update_callable(cfg, things.resolve_symbol(edit[1]))
      except TypeError:
        pass
    else:
      raise ValueError(op)
  except Exception as e:  # pylint: disable=broad-except
    return e
  return None


_BT = {'Config': fdl.Config, 'Partial': fdl.Partial, 'ArgFactory': fdl.ArgFactory}
_NT = {'Pair': things.Pair, 'Triple': things.Triple, 'PairSub': things.PairSub, 'GenericNT': things.GenericNT}


def build_node(node, objs, notes=None):
  k = node['k']
  if k == 'leaf':
    return leaves.dec(node['v'])
  if k == 'list':
    return [deref(r, objs) for r in node['items']]
  if k == 'tuple':
    return tuple(deref(r, objs) for r in node['items'])
  if k == 'dict':
    return {leaves.dec(kk): deref(r, objs) for kk, r in zip(node['keys'], node['items'])}
  if k == 'nt':
    return _NT[node['type']](*[deref(r, objs) for r in node['items']])
  if k == 'odict':   # dict subclass with leaf values: an opaque value for daglish
    return collections.OrderedDict((leaves.dec(kk), leaves.dec(v)) for kk, v in zip(node['keys'], node['vals']))
  if k == 'lsub':    # list subclass with leaf values
    return things.ListSub(leaves.dec(v) for v in node['vals'])
  if k == 'TV':
    tg = [vtags.ALL[t] for t in node['tags']]
    if node.get('value') is None:
      return fdl.TaggedValue(tg)
    return fdl.TaggedValue(tg, default=deref(node['value'], objs))
  if k == 'B':
    if node['bt'] in ('DictConfig', 'NamespaceConfig'):
      from fiddle.experimental import dict_config, namespace_config
      cls = dict_config.DictConfig if node['bt'] == 'DictConfig' else namespace_config.NamespaceConfig
      cfg = cls(**{n: deref(r, objs) for n, r in node.get('kw', {}).items()})
      for e in node.get('edits', []):
        apply_edit(cfg, e, objs)
      for key, tname in node.get('tags', []):
        fdl.add_tag(cfg, key, vtags.ALL[tname])
      return cfg
    fn = resolve_fn(node['fn'])
    cfg = _BT[node['bt']](
        fn, *[deref(r, objs) for r in node.get('pos', [])],
        **{n: deref(r, objs) for n, r in node.get('kw', {}).items()})
    for e in node.get('edits', []):
      err = apply_edit(cfg, e, objs)
      if notes is not None and err is not None:
        notes.append((e, err))
    for key, tname in node.get('tags', []):
      fdl.add_tag(cfg, key, vtags.ALL[tname])
    return cfg
  raise ValueError(k)


def build_recipe(recipe, notes=None):
  objs = []
  for node in recipe['nodes']:
    objs.append(build_node(node, objs, notes))
  return objs[recipe['root']], objs


# ---------------------------------------------------------------------------
# strategies


@st.composite
def shape_codes(draw, max_po=2, max_pk=3, max_ko=2):
  np = draw(st.integers(0, max_po))
  nk = draw(st.integers(0, max_pk))
  nd = draw(st.integers(0, np + nk))
  v = draw(st.booleans())
  nko = draw(st.integers(0, max_ko))
  kwspec = ''.join(draw(st.sampled_from('01')) for _ in range(nko))
  w = draw(st.booleans())
  return sigs.encode_shape(np, nk, nd, v, kwspec, w)


@st.composite
def dc_codes(draw):
  npos = draw(st.integers(0, 3))
  letters = sorted((draw(st.sampled_from('ndf')) for _ in range(npos)), key=lambda l: l != 'n')
  nk = draw(st.integers(0, 2))
  kw = ''.join(draw(st.sampled_from('ndf')) for _ in range(nk))
  code = ''.join(letters)
  return code + ('K' + kw if kw else '')


@st.composite
def fnspecs(draw, kinds=('fn', 'Cls', 'cm', 'sm', 'inst', 'DC', 'fpartial')):
  kind = draw(st.sampled_from(kinds))
  if kind == 'DC':
    return {'kind': 'DC', 'code': draw(dc_codes())}
  code = draw(shape_codes())
  if kind == 'fpartial':
    sh = sigs.Shape(code)
    nbind = draw(st.integers(0, min(2, len(sh.positional))))
    rest = sh.poskw[max(0, nbind - sh.np):] + sh.kwonly
    kbind = draw(st.lists(st.sampled_from(rest), unique=True, max_size=2)) if rest else []
    return {'kind': 'fpartial', 'code': code, 'nbind': nbind, 'kbind': sorted(kbind)}
  return {'kind': kind, 'code': code}


def child_ref(draw, navail, leaf_st, p_alias=0.5, kinds_ok=None):
  """A ref: earlier node index (alias) or inline leaf."""
  cands = list(range(navail)) if kinds_ok is None else kinds_ok
  if cands and draw(st.floats(0, 1)) < p_alias:
    return draw(st.sampled_from(cands))
  return {'leaf': draw(leaf_st)}


@st.composite
def arg_program(draw, fnspec, pick_ref, patterns=None):
  """Draws pos/kw/edits for one Buildable over `fnspec` by per-parameter routes.

  pick_ref() -> ref.  Returns (pos, kw, edits, features).
  """
  info = ParamInfo(resolve_fn(fnspec))
  pattern = draw(st.sampled_from(patterns or [
      'all', 'random', 'random', 'random', 'none', 'gap', 'gap_varargs', 'missing_required']))
  npos = info.npos
  set_flags = []
  for i, name in enumerate(info.positional):
    if pattern == 'all':
      s = True
    elif pattern == 'none':
      s = False
    elif pattern == 'missing_required':
      s = info.has_default[name] and draw(st.booleans())
    else:
      s = draw(st.booleans())
    set_flags.append(s)
  if pattern == 'gap' and npos >= 2:
    j = draw(st.integers(0, npos - 2))
    set_flags[j] = False
    set_flags[draw(st.integers(j + 1, npos - 1))] = True
  nvar = 0
  if info.varargs:
    nvar = draw(st.integers(1, 3)) if pattern == 'gap_varargs' else draw(st.sampled_from([0, 0, 1, 2, 3]))
    if pattern == 'gap_varargs' and npos >= 1:
      set_flags[draw(st.integers(0, npos - 1))] = False
  pos, kw, edits = [], {}, []
  # constructor-positional prefix
  prefix = 0
  while prefix < npos and set_flags[prefix] and draw(st.booleans()):
    prefix += 1
  for i in range(prefix):
    pos.append(pick_ref())
  ctor_var = 0
  if prefix == npos and nvar and draw(st.booleans()):
    ctor_var = nvar
    for _ in range(nvar):
      pos.append(pick_ref())
  late = []
  for i in range(prefix, npos):
    if not set_flags[i]:
      continue
    name = info.positional[i]
    if i >= len(info.posonly):
      route = draw(st.sampled_from(['ctor_kw', 'setattr', 'setitem', 'setitem_neg_ok']))
    else:
      route = 'setitem'
    if route == 'ctor_kw':
      kw[name] = pick_ref()
    elif route == 'setattr':
      late.append(['setattr', name, pick_ref()])
    else:
      late.append(['setitem', i, pick_ref()])
  for name in info.kwonly:
    if pattern == 'all':
      s = True
    elif pattern == 'none':
      s = False
    elif pattern == 'missing_required':
      s = info.has_default[name] and draw(st.booleans())
    else:
      s = draw(st.booleans())
    if s:
      if draw(st.booleans()):
        kw[name] = pick_ref()
      else:
        late.append(['setattr', name, pick_ref()])
  if info.varkw:
    for name in draw(st.permutations(['z0', 'z1', 'y9']))[:draw(st.sampled_from([0, 0, 1, 2, 3]))]:
      if draw(st.booleans()):
        kw[name] = pick_ref()
      else:
        late.append(['setattr', name, pick_ref()])
  if info.varkw and draw(st.floats(0, 1)) < 0.15:
    # a **kwargs entry named like a positional-only parameter or like the *args parameter
    # (legal in a direct call: f(1, p0=2) binds p0 into **kw)
    clash = [n for n in info.posonly] + (['args'] if info.varargs else []) + [info.varkw_name]
    if clash:
      kw[draw(st.sampled_from(clash))] = pick_ref()
  if nvar and not ctor_var:
    late.append(['setslice', ['V', None, None], [pick_ref() for _ in range(nvar)]])
  late = draw(st.permutations(late)) if late else []
  edits.extend(late)
  # noise: overwrite / delete-then-set of a named parameter
  named = info.poskw + info.kwonly
  if named and draw(st.floats(0, 1)) < 0.25:
    name = draw(st.sampled_from(named))
    edits.append(['setattr', name, pick_ref()])
    if draw(st.booleans()):
      edits.append(['delattr', name])
      if draw(st.booleans()):
        edits.append(['setattr', name, pick_ref()])
  return pos, kw, list(edits), pattern
