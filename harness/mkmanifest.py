"""Regenerates /verif/MANIFEST.json from the per-property table below."""
import json
import os

VERIF = os.path.dirname(os.path.dirname(os.path.abspath(__file__)))

CHECKS = {
    'C01': dict(
        technique='property-based testing: generated signatures x argument routes, differential oracle (direct call on reference-built arguments)',
        text='Hypothesis-generated Configs over 1176 signature shapes x 7 callable kinds with generated argument routes and nestings, plus sequences of Buildables over unhashable callable instances; fdl.build is compared with a direct call formed by an independent reference evaluator. Thorough additionally enumerates every shape x {function, class} x every subset of parameters. Held-on-everything-generated, not a proof.',
        note='Trusted: CPython inspect.signature, harness/refmodel.py (form_call, ref_build), harness/canon.py; Hypothesis 6.168 generation.'),
    'C02': dict(
        technique='property-based testing: generated DAG recipes with explicit aliasing, invocation-log and identity-relation oracle against a reference evaluator',
        text='Hypothesis-generated DAGs (diamonds, shared containers, equal-but-distinct copies, TaggedValues in containers, Box nodes whose flatten allocates temporaries, chains to depth 100); after fdl.build the invocation log, the path-wise identity relation, cross-build disjointness and the canonical form against an independent memoizing evaluator are checked. Exploration, not proof; id reuse is provoked, not guaranteed.',
        note='Trusted: harness/refmodel.ref_build, harness/canon.py, recording callables in harness/vuni.'),
    'C03': dict(
        technique='model-based (stateful) property testing: generated edit histories against a Python list/dict reference model, all observations compared after every step',
        text='Hypothesis draws an initial binding and up to 40 get/set/del operations by name, index, negative index, VARARGS and slice, with operands drawn relative to the evolving model state; after every step every public observation (cfg[:], cfg[i], getattr, ordered_arguments under all 24 flag combinations, dir, storage) must equal ModelArgs and rejected edits must leave them unchanged.',
        note='Trusted: harness/argmodel.ModelArgs (list semantics over fixed prefix + *args), CPython inspect.signature.'),
    'C04': dict(
        technique='property-based testing: generated Partial/ArgFactory/Config nestings and call sequences, differential oracle against a hand-written two-stage functools.partial reference, joint canonical form across calls',
        text='Hypothesis generates a root Partial (generated signature shape or simple callable) whose arguments nest Configs, ArgFactories (also inside containers, inside other ArgFactories, as positional arguments, with custom-__eq__ products) and Partials, then 2-4 calls with positional extras and overriding keywords; each call outcome, the joint canonical form of all results (fresh vs reused vs passed through) and invocation counts must match the reference.',
        note='Trusted: RefPartial/Marker/materialize in harness/props/c04.py, refmodel.form_call, canon with behavioural probing of callables.'),
    'C05': dict(
        technique='property-based fault injection: generated DAG x failing node x exception-class family x build sequence; oracle on the escaping exception, invocation log, config frame condition and follow-up builds',
        text='Every generated DAG gets one failing Config node raising from one of 20 exception-class families (custom __init__/__new__/__str__, slots, un-subclassable, local class created at raise time, KeyError/OSError/UnicodeDecodeError/StopIteration/ExceptionGroup, BaseException subclasses, arguments whose repr raises) plus nodes that attempt nested fdl.build calls; a generated sequence of failing and good builds is judged for class/message/path fidelity, no-call-after-failure, unmodified config, working follow-up build and rejection of every nested build.',
        note='Trusted: harness/canon.walk path enumeration and path rendering in props/c05.py, refmodel.ref_build for follow-up builds. Context path required only where a proxy class can be built (see ASSUMPTIONS in evidence).'),
    'C06': dict(
        technique='property-based metamorphic testing: generated configuration triples related by equality-preserving / single equality-breaking rewrites; algebraic laws of == plus congruence with build checked against canonical forms',
        text='Hypothesis generates a base DAG x and y=r1(x), z=r2(y) with r drawn from 7 equality-preserving rewrites (deepcopy, pickle, rebuild, default made explicit incl. positional-only, dict reordered, edit history, alias to a tuple of literals redirected) and 6 equality-breaking rewrites (leaf, callable, Buildable type, alias redirected, a later reference re-targeted among visited objects, copies merged); totality, reflexivity, symmetry, transitivity, !=, expected truth value and x==y => identical built graphs (sharing included) are checked. Two genuine defects of the first-visit-path DAG comparison are listed as known findings with a narrow input feature.',
        note='Trusted: rewrite functions and first_visit_paths classifier in harness/props/c06.py, harness/canon.py. NaN leaves excluded.'),
    'C07': dict(
        technique='property-based testing with edit histories: generated configuration x copy operation x edits on the copy; round-trip (canonical form) and identity-disjointness oracle, frame condition on the original after every edit',
        text='For each generated DAG (all Buildable types, positional/*args/keyword arguments, tags also on value-less positional-only parameters, shared containers, sets and plain attribute-holder objects as mutable leaves, explicit mutable defaults) and each of 8 copy operations, the copy must be canonically equal (tags, sharing), deep copies must share no Buildable / argument dict / container / tag set / history list with the original, shallow copies must have fresh top-level state with identical argument values, and 1-8 generated edits of the copy (arguments, tags, TaggedValue assignment, in-place container mutation for deep copies) must leave the original\'s canonical form with history and its build unchanged.',
        note='Trusted: harness/canon.py, mutable_objects() enumeration in props/c07.py.'),
    'C08': dict(
        technique='property-based testing: generated nested structures with aliasing, independent reference walk as oracle for path soundness/completeness, canonical-form round trip for identity traversals, small history scenarios for registries',
        text='Generated structures (lists, tuples, dicts, defaultdicts, named tuples, Buildables with positional/*args/keyword arguments, tuples of literals, Box nodes with flatten temporaries, aliasing) are walked by an independent reference; iterate (memoized/un-memoized/memoize_internables=False), follow_path, collect_paths_by_id (daglish + legacy), State.get_all_paths (for containers and for leaves, cached and, after the structure gained a reference, with allow_caching=False) and five identity rebuilds are compared with it; cyclic inputs must raise ValueError; a node type registered after a fallback registry already looked it up must be traversed afterwards.',
        note='Trusted: reference walk in harness/canon.py + props/c08.py; legacy traversals judged only on the container types they document.'),
    'C09': dict(
        technique='property-based round-trip testing plus policy fault injection: generated values -> dump_json -> load_json compared by canonical form; mutated documents loaded under recording policies with a spy on symbol resolution',
        text='Hypothesis generates DAGs with every serializable leaf/container type (huge ints, special floats, surrogates, escape-like bytes, enums, slices, NO_VALUE, sets, named tuples, defaultdicts, arbitrary hashable dict keys, registered constant, dict-based object, tags, unset parameters, sharing, callables whose names collide in snake case); dump must raise or produce JSON whose load has the same canonical form and re-dumps identically, without invoking any callable. Policy cases mutate pyrefs of real documents to canary/forbidden symbols and load them under allow-list / deny-all / deny-by-value policies while a spy checks that every resolved symbol was approved by both policy questions during that resolution.',
        note='Trusted: harness/canon.py, the import_symbol spy and RecordingPolicy in props/c09.py, json.loads as the reference JSON parser.'),
    'C10': dict(
        technique='property-based round-trip testing over generated configuration pairs (independent, identity-sharing, k random edits); canonical-form oracle independent of Fiddle ==',
        text='Pairs (old, new) are generated as two independent DAG recipes, as a shallow top-level copy sharing every sub-object with old and then edited, or as up to 6 random edits (value change, callable swap with and without dropped arguments and between **kwargs callables assembled without update_callable, argument/tag add/remove, alias created/broken, subtree moved, list/dict growth and shrink) of a deep copy; build_diff must succeed and apply_diff on a copy of old must yield the canonical form of new in place, leaving diff and new untouched; the self-diff must be empty. Positional arguments and changed elements inside aligned tuples are listed known findings, excluded from most of the campaign and re-confirmed by replay.',
        note='Trusted: harness/canon.py, the edit interpreter in props/c10.py. Diff shape is never judged.'),
    'C14': dict(
        technique='property-based testing: generated tagged DAGs, frame-condition oracle from an independent graph walk, dict-of-sets model for tag operation histories, round trips through five subsystems',
        text='Generated DAGs carry tags from a class hierarchy on keyword, positional-only, *args and **kwargs arguments (with and without values), Annotated tags, shared tagged nodes and TaggedValues in containers; set_tagged / select(tag=).replace must set exactly the arguments whose tag set contains a subclass of T and change nothing else; list_tags must equal the reference union; generated add/remove/set/clear/get histories (by name and index, valid and invalid) are compared with a set model; tags must survive copy, deepcopy, pickle, cast, JSON and diff application; TaggedValues build to their value or fail.',
        note='Trusted: harness/canon.py, TagModel in props/c14.py. Tags on *args slots that do not exist are skipped as unspecified.'),
    'C15': dict(
        technique='property-based testing: generated DAGs over a class hierarchy x selection parameters x operation; expected node set from an independent graph walk, recursive frame condition for replace',
        text='For generated DAGs (functions and Base<-Mid<-LeafCls/Other classes under Config and Partial, matches shared, nested in other matches and in containers), every F x match_subclasses x buildable_type, the selection must iterate exactly the reference identity set once each, set/get must touch exactly those nodes, replace (both deepcopy modes, also with v equal to a matching node) must put v at every reference to a match while every other Buildable keeps identity and arguments recursively from the root, replace on a root match must raise, a selection object reused after the configuration gained or lost a matching node must reflect the current matches, and tag selections must yield value / default / NO_VALUE.',
        note='Trusted: harness/canon.walk, the matches() predicate and expect() recursion in props/c15.py.'),
    'C16': dict(
        technique='model-based (stateful) property testing: generated edit histories on two configurations, per-step invariants relating the history log to the observed stored state and to a nesting model of suspend_tracking',
        text='Up to 40 generated operations (C03 edits incl. *args shifts, tag operations, TaggedValue assignment, assign, copy_with, materialize_defaults, update_callable, nested suspend enter/exit; 15% of the ops run in a fresh thread that is started and joined) on two configurations; after every step: exactly one NEW_VALUE entry per changed key holding the stored object or DELETED, none on the other configuration, nothing logged while suspended (own depth counter), last entries equal current value/tags, sequence ids fresh and increasing, entries located in the calling file, and finally history-independence of == and build. Location of tag-API entries is a listed known finding (pinned by an existing test).',
        note='Trusted: snapshots of __arguments__/__argument_tags__ taken by the harness, harness/argmodel only for operand choice.'),
    'C17': dict(
        technique='property-based frame-condition testing: generated (entry point, configuration) pairs; canonical form and path->identity map of the input compared before and after each call',
        text='54 read-only / copy-returning entry points (build, ==, printers, graphviz, JSON/YAML dump, build_diff/apply_diff arguments, validators, three code generators, selections, grep, cast, copy_with, deepcopy_with incl. TaggedValue overrides, materialize_tags in all modes, trimming helpers, transforms, tag queries) are called on generated DAGs with sharing, tags (also on empty Buildables), long values, positional arguments, TaggedValues and a callable that mutates its container argument while being built; the input must have the same canonical form and the same object at every path afterwards, whether the call returned or raised.',
        note='Trusted: harness/canon.py; the API table in props/c17.py defines what is covered. History is excluded as the property states.'),
    'C18': dict(
        technique='property-based round-trip and differential testing: generated configurations -> printed paths -> flag parser -> reference resolution / reference setter; generated directive sequences against sequential application in Python; rendered call expressions against their structured source',
        text='Three generated case kinds: (1) configurations in the stated domain (dict keys incl. empty, punctuation, escapes, non-ASCII, ints; literal leaves) whose flattened printers must list exactly the reference leaves once, each printed path must parse and resolve to its leaf, and writing back the same / a different literal must change nothing / exactly what a reference setter changes; (2) base-config + set:/fiddler: directive sequences (mutating and new-config-returning fiddlers, non-commuting pairs) split over several parse() calls with intermediate .value reads, compared with in-order application in Python, plus the config_str serializer round trip; (3) CallExpression.parse of rendered calls.',
        note='Trusted: reference leaf walk, render(), ref_set() in props/c18.py; ast.literal_eval as the literal reader. atheris-driven variant of the same strategies is not registered (see DESIGN section 8).'),
    'C20': dict(
        technique='property-based metamorphic testing: generated configuration x transformation; relation build(t(c)) ~ build(c) by canonical form (sharing, behavioural partials), plus ==, idempotence, completeness and serializability clauses',
        text='Eleven transformations (materialize_defaults, with_defaults_trimmed in both modes, unintern_tuples_of_literals, replace_unconfigured_partials_with_callables, clear_argument_history, materialize_tags in two modes, auto_config.inline, convert_dataclasses_to_configs) are applied to generated DAGs with positional-only defaults (also behind a required positional-only parameter), single and shared mutable defaults (explicit arguments equal to / aliasing them), dataclass default factories, TaggedValues whose payload is shared, Partials in containers and tuples of literals; the built graphs must be canonically identical, == must hold where stated, materialize_defaults must be idempotent and complete, serializability must be preserved. Sharing differences that consist only of default-object identity (and one aliasing defect of replace_unconfigured_partials) are listed known findings, classified by an explicit predicate.',
        note='Trusted: harness/canon.py (incl. no_identity / probe_symbols modes), classification predicates in props/c20.py. == instability under copying is owned by C06 and counted as prerequisite_failed.'),
    'C11': dict(
        technique='grammar-based program generation (property-based testing over programs): generated auto_config modules are imported from scratch files; differential oracle plain Python run vs build(as_buildable()) by canonical form',
        text='A grammar produces module sources with helper auto_config functions and a target (function, closure with optionally re-bound captured variable, lambda, staticmethod, classmethod) over nested calls with positional/keyword/*splat/**splat arguments, variables (sharing), container displays, functools.partial (also of a partial held in a variable), arg_factory.partial (factories also with positionally bound arguments), exempt, with_tags, builtins and, with the control-flow option, if/for/comprehensions/conditional expressions; the plain run, the decorated run and build(as_buildable(*args)) must agree in canonical form (values, types, sharing; partials behaviourally), as_buildable may invoke only exempted callables, and a fixed stream of unsupported constructs must raise UnsupportedLanguageConstructError.',
        note='Trusted: harness/gen/programs.py renderer, CPython as the reference semantics of the generated program, harness/canon.py. Programs outside the generated grammar are not covered.'),
    'C12': dict(
        technique='property-based per-output validation of generated programs: configuration x option point -> emitted module is imported from a scratch file and its fixture compared with the input by canonical form; value-to-expression round trip by eval',
        text='For generated configurations (Config/Partial/ArgFactory, positional arguments, tags, shared nodes, containers, named tuples and sets, symbol/enum (also nested and same-named enums)/bytes/complex/special-float leaves, tuple dict keys) and option points (new_codegen or auto_config_codegen, generated sub_fixtures, max_expression_complexity, include_history) plus two targeted scenarios (sub-fixture parameter/local name collision; variable named like a module that is only referenced by a leaf symbol), the generator must raise or emit text that compiles, imports and reproduces the configuration exactly; convert_py_val_to_cst output must eval to an equal value of the same type. Twenty-three buckets from twelve root causes in the code generators are listed known findings, each keyed by an input-feature predicate; cases with two such features are skipped.',
        note='Trusted: harness/canon.py, feature predicates in props/c12.py, CPython import/exec of the emitted module.'),
    'C13': dict(
        technique='property-based differential testing of generated programs: diff -> emitted fiddler (exec) versus apply_diff, over generated and template diffs and all four option points',
        text='Diffs come from build_diff over the C10 pair generator and from two parametrised hand-assembled templates (reference into a replaced part of old through the same or an aliased path; new shared values referencing each other and old); each diff is rendered with both naming modes and with/without old, the module must compile, and fiddler(copy of old) must have the canonical form apply_diff produces. Diffs on which apply_diff itself fails are skipped (C10 owns them). Two code-generation limitations (tags on value-less arguments of created Buildables; positional arguments in created Buildables) are listed known findings.',
        note='Trusted: diffing.apply_diff as the reference (its own correctness is judged by C10), harness/canon.py, exec of the emitted code.'),
    'C19': dict(
        technique='schedule-space exploration with a harness-owned deterministic scheduler (sys.monitoring LINE events on real threads): generated thread programs x generated pre-emption schedules plus systematic single-pre-emption sweeps; differential oracle against solo runs',
        text='2-3 real threads run programs from a vocabulary (nested build, edits inside nested suspend_tracking, tag edits, deepcopy/==, JSON round trip, first-time Config of callables shared by the threads, failing build with scenario-local exception classes, select/set) on disjoint configurations, serialised by a scheduler that switches threads only at generated (thread, own step) points inside fiddle/_src, optionally snapped to the modules that own cross-thread state; in addition every k-th (thorough: every) step of the first thread of fixed two-thread scenarios is used as a single pre-emption, and all double pre-emptions (0->1 at i, 1->0 at j) over the history.py steps touching the tracking flag are enumerated. Each thread must return exactly what it returns alone, sequence ids must be unique across threads and increasing per parameter.',
        note='Trusted: harness/sched.py (baton scheduler), CPython GIL model with switches between source lines; C-level atomic operations are not split.'),
}

PENDING = {}


def main():
  props = [json.loads(l) for l in open(os.path.join(VERIF, 'properties.jsonl'))]
  checks, na = [], []
  for p in props:
    pid = p['id']
    if pid in CHECKS:
      c = CHECKS[pid]
      checks.append({
          'property_id': pid,
          'quick_cmd': f'./check {pid} quick',
          'thorough_cmd': f'./check {pid} thorough',
          'evidence_file': f'evidence/{pid}.json',
          'replay_cmd_template': f'./check {pid} --replay {{path}}',
          'engine': 'hypothesis-runner',
          'level_claimed': {'category': 'exploration',
                            'text': c['text'] + ' Generator and clause additions made after the sensitivity rounds are '
                                    'listed in the "rule" field of the evidence file and in DESIGN.md sections 13-19.',
                            'design_ref': f'DESIGN.md section 6, {pid}'},
          'level_note': c['note'],
          'technique': c['technique'],
      })
    else:
      na.append({'property_id': pid, 'reason': PENDING.get(
          pid, 'check not built yet in this round (planned, see DESIGN.md section 6); not claimed until its check exists')})
  m = {
      'version': 1,
      'setup_cmd': './setup.sh',
      'hooks': {
          'guard': 'FIDDLE_VERIF',
          'enable': 'no hooks needed: checks import the working tree of /repo (or $VERIF_REPO) directly; Python needs no build',
          'baseline_off_cmd': 'cd /repo && /venv/bin/python -m pytest -q -p no:cacheprovider --timeout=900',
          'source_commits': [],
          'add_only': True,
      },
      'engines': [{
          'name': 'hypothesis-runner', 'path': 'harness/runner.py',
          'serves_properties': [c['property_id'] for c in checks],
          'kind_free_text': 'Hypothesis 6.168 strategies sharded over 16 processes; oracle functions per property in harness/props; collect-then-shrink bucketing; JSON replay files',
      }],
      'checks': checks,
      'not_applicable': na,
      'notes': 'Exit 0 held / 1 VIOLATION / 2 harness error. VERIF_SEED selects the Hypothesis seed; VERIF_REPO points the same check at a scratch tree.',
  }
  with open(os.path.join(VERIF, 'MANIFEST.json'), 'w') as f:
    json.dump(m, f, indent=1)
  print('checks:', len(checks), 'not_applicable:', len(na))


if __name__ == '__main__':
  main()
