"""Independent canonical forms and reference walks (no use of fiddle.daglish).

`canon(x)` turns a configuration graph or a built object graph into a hashable
term with *explicit sharing*: identity-bearing nodes are numbered at first
visit (deterministic traversal order) and later visits emit ('ref', n).
Two values have equal canon terms iff they are isomorphic as graphs with equal
leaves (by type and repr), equal callables, equal tags.
"""

import collections
import dataclasses
import enum
import functools
import inspect
import types

from fiddle._src import config as _cfg  # only for isinstance / attribute names
from fiddle._src import history as _hist
from harness.vuni import Rec

Buildable = _cfg.Buildable
NO_VALUE = _cfg.NO_VALUE

_LEAF_TYPES = (
    bool, int, float, complex, str, bytes, type(None), type(Ellipsis),
    type(NotImplemented), enum.Enum, range, slice,
)


def is_leaf(x):
  return isinstance(x, _LEAF_TYPES) or x is NO_VALUE


def is_namedtuple(x):
  return isinstance(x, tuple) and hasattr(type(x), '_fields') and hasattr(x, '_asdict')


def is_internable(x):
  """Values whose identity Python may or may not share; identity is not judged."""
  if is_leaf(x) or is_symbol(x):
    return True
  if type(x) is tuple:
    return all(is_internable(e) for e in x)
  return False


def is_symbol(x):
  return isinstance(
      x,
      (type, types.FunctionType, types.BuiltinFunctionType, types.MethodType,
       types.ModuleType),
  )


def symbol_term(x):
  if isinstance(x, types.MethodType):
    return ('method', symbol_term(x.__self__) if is_symbol(x.__self__) else
            ('selfobj', type(x.__self__).__qualname__), x.__func__.__name__)
  mod = getattr(x, '__module__', None)
  qn = getattr(x, '__qualname__', None) or getattr(x, '__name__', None)
  return ('sym', mod, qn)


def leaf_term(x, num_norm=False):
  if num_norm and isinstance(x, (bool, int, float)) and x == x and x not in (float('inf'), float('-inf')) and x == int(x):
    # inside an opaque object compared with its own ==: True == 1 == 1.0
    return ('L', 'num', repr(int(x)))
  if x is NO_VALUE:
    return ('L', 'NoValue', 'NO_VALUE')
  if isinstance(x, slice):
    return ('L', 'slice', repr((x.start, x.stop, x.step)))
  return ('L', type(x).__qualname__, repr(x))


def callable_term(fn, c):
  """Term for the callable of a Buildable (identity matters only by symbol)."""
  if isinstance(fn, functools.partial):
    return ('fpartial', callable_term(fn.func, c),
            tuple(c.term(a) for a in fn.args),
            tuple((k, c.term(v)) for k, v in sorted(fn.keywords.items())))
  if is_symbol(fn):
    return symbol_term(fn)
  # callable instance etc.
  return ('callable-obj', type(fn).__module__, type(fn).__qualname__)


def _key_sort(k):
  return (0, k, '') if isinstance(k, int) and not isinstance(k, bool) else (1, 0, str(k))


class Canon:
  """Canonicaliser; one instance per canonical form (numbering is per instance)."""

  def __init__(self, *, history=False, tags=True, sharing=True,
               fill_defaults=False, dict_order=False, callable_probe=False, probe_symbols=False,
               no_identity=(), opaque_by_eq=False, num_norm=False, probe_twice=False):
    self.probe_twice = probe_twice
    self.opaque_by_eq = opaque_by_eq
    self.num_norm = num_norm
    self.history = history
    self.tags = tags
    self.sharing = sharing
    self.fill_defaults = fill_defaults
    self.dict_order = dict_order
    self.callable_probe = callable_probe
    self.probe_symbols = probe_symbols
    self.no_identity = {id(o) for o in no_identity}
    self._no_identity_pins = list(no_identity)
    self.probe_depth = 0
    self.ids = {}
    self.pins = []
    self.depth = 0

  # -- value terms (no identity), used for dict keys / set elements
  def vterm(self, x):
    sub = Canon(history=False, tags=self.tags, sharing=False,
                fill_defaults=self.fill_defaults, dict_order=self.dict_order)
    return sub.term(x)

  def term(self, x):
    if is_leaf(x):
      return leaf_term(x, self.num_norm)
    if is_symbol(x):
      if self.probe_symbols and getattr(x, '__module__', '').startswith('harness.vuni') and self.probe_depth < 3:
        self.probe_depth += 1
        try:
          try:
            r = x()
          except Exception as e:  # pylint: disable=broad-except
            return ('callable', ('raises', 'TypeError' if isinstance(e, TypeError) else 'other'))
          return ('callable', self.term(r))
        finally:
          self.probe_depth -= 1
      return symbol_term(x)
    if type(x) is tuple and (is_internable(x) or (self.probe_symbols and self._internable_ps(x))):
      return ('ituple', tuple(self.term(e) for e in x))
    if self.probe_symbols and self._probe_target(x):
      # behavioural comparison without identity (a bare function has none)
      return self._body(x)
    if id(x) in self.no_identity:
      return ('noid', self._body(x))
    if self.sharing:
      n = self.ids.get(id(x))
      if n is not None:
        return ('ref', n)
      n = len(self.ids)
      self.ids[id(x)] = n
      self.pins.append(x)
    else:
      n = None
      self.depth += 1
      if self.depth > 200:
        raise RecursionError('canon: too deep / cyclic in tree mode')
    try:
      body = self._body(x)
    finally:
      if not self.sharing:
        self.depth -= 1
    return ('def', n, body) if self.sharing else body

  def _internable_ps(self, x):
    if type(x) is tuple:
      return all(self._internable_ps(e) for e in x)
    return is_internable(x) or self._probe_target(x)

  def _probe_target(self, x):
    return (self.callable_probe and callable(x) and not hasattr(x, '__vrec__') and (
        isinstance(x, functools.partial) or hasattr(x, '__vprobe__')
        or type(x).__name__ in ('_InvokeArgFactoryWrapper',)))

  def _items(self, d):
    items = [(self.vterm(k), k, v) for k, v in d.items()]
    if not self.dict_order:
      items.sort(key=lambda t: repr(t[0]))
    return tuple((kt, self.term(v)) for kt, _, v in items)

  def _body(self, x):
    if isinstance(x, Buildable):
      return self._buildable(x)
    if isinstance(x, Rec):
      return ('Rec', x.fn,
              tuple((k, self.term(v)) for k, v in x.bound.items()),
              tuple(self.term(v) for v in x.varargs),
              tuple((k, self.term(v)) for k, v in sorted(x.varkw.items())))
    if is_namedtuple(x):
      return ('nt', type(x).__qualname__, tuple(self.term(e) for e in x))
    if isinstance(x, tuple):
      return ('tuple', type(x).__qualname__, tuple(self.term(e) for e in x))
    if isinstance(x, list):
      return ('list', type(x).__qualname__, tuple(self.term(e) for e in x))
    if isinstance(x, collections.defaultdict):
      f = x.default_factory
      ft = None if f is None else (symbol_term(f) if is_symbol(f) else ('obj', type(f).__qualname__))
      if self.opaque_by_eq:
        ft = None  # "by the values' own ==": defaultdicts compare by their items only
      return ('defaultdict', ft, self._items(x))
    if isinstance(x, dict):
      return ('dict', type(x).__qualname__, self._items(x))
    if isinstance(x, (set, frozenset)):
      return (type(x).__qualname__, tuple(sorted((self.vterm(e) for e in x), key=repr)))
    if self._probe_target(x):
      if self.probe_depth >= 3:
        return ('callable', 'too-deep')
      self.probe_depth += 1
      try:
        try:
          r = x()
        except Exception as e:  # pylint: disable=broad-except
          return ('callable', ('raises', type(e).__name__ if isinstance(e, TypeError) else 'other'))
        if self.probe_twice:
          # a second call: what the two results share by identity shows up as a back-reference
          try:
            r2 = x()
          except Exception as e:  # pylint: disable=broad-except
            return ('callable', self.term(r), ('second-call-raises', type(e).__name__))
          self.pins.append(r2)
          return ('callable', self.term(r), self.term(r2))
        return ('callable', self.term(r))
      finally:
        self.probe_depth -= 1
    if isinstance(x, functools.partial):
      return ('fpartial', self.term(x.func), tuple(self.term(a) for a in x.args),
              tuple((k, self.term(v)) for k, v in sorted(x.keywords.items())))
    if hasattr(x, '__vrec__'):
      return ('vobj', type(x).__qualname__, self.term(x.__vrec__))
    if dataclasses.is_dataclass(x) and not isinstance(x, type):
      if self.opaque_by_eq:
        # a dataclass instance is an opaque leaf for Fiddle: it is what its own == says
        sub = Canon(history=False, tags=False, sharing=False, num_norm=True)
        return ('dc', type(x).__qualname__,
                tuple((f.name, sub.term(getattr(x, f.name, ('<unset>',))))
                      for f in dataclasses.fields(x) if f.compare))
      return ('dc', type(x).__qualname__,
              tuple((f.name, self.term(getattr(x, f.name, ('<unset>',))))
                    for f in dataclasses.fields(x)))
    if hasattr(x, '__vcanon__'):
      return ('custom', type(x).__qualname__, self.term(x.__vcanon__()))
    if type(x).__module__.startswith('fiddle') and hasattr(x, '__dict__') and not callable(x):
      return ('pyobj', type(x).__qualname__,
              tuple((k, self.term(v)) for k, v in sorted(vars(x).items())))
    return ('opaque', type(x).__module__, type(x).__qualname__)

  def _buildable(self, b):
    args = dict(b.__arguments__)
    if self.fill_defaults:
      try:
        sig = inspect.signature(b.__fn_or_cls__)
      except (TypeError, ValueError):
        sig = None
      if sig is not None:
        for idx, (name, p) in enumerate(sig.parameters.items()):
          if p.default is p.empty:
            continue
          key = idx if p.kind == p.POSITIONAL_ONLY else name
          if key not in args and not _uses_factory(b.__fn_or_cls__, name):
            args[key] = p.default
    keys = sorted(args, key=_key_sort)
    arg_terms = tuple((k, self.term(args[k])) for k in keys)
    tag_terms = ()
    if self.tags:
      tag_terms = tuple(
          (k, tuple(sorted(_tag_name(t) for t in ts)))
          for k, ts in sorted(b.__argument_tags__.items(), key=lambda kv: _key_sort(kv[0]))
          if ts
      )
    out = ('B', type(b).__name__, callable_term(b.__fn_or_cls__, self), arg_terms, tag_terms)
    if self.history:
      h = []
      for k in sorted(b.__argument_history__, key=_key_sort):
        entries = []
        for e in b.__argument_history__[k]:
          if e.kind == _hist.ChangeKind.UPDATE_TAGS:
            entries.append(('tags', tuple(sorted(_tag_name(t) for t in e.new_value))))
          elif e.new_value is _hist.DELETED:
            entries.append(('del',))
          else:
            entries.append(('val', self.vterm_safe(e.new_value)))
        h.append((k, tuple(entries)))
      out = out + (tuple(h),)
    return out

  def vterm_safe(self, v):
    # history values: compare by value term without disturbing numbering.
    try:
      return Canon(sharing=True, tags=self.tags).term(v)
    except RecursionError:
      return ('deep',)


def _uses_factory(fn, name):
  if dataclasses.is_dataclass(fn) and isinstance(fn, type):
    for f in dataclasses.fields(fn):
      if f.name == name:
        return f.default_factory is not dataclasses.MISSING
  return False


def _tag_name(t):
  return getattr(t, 'name', None) or f'{t.__module__}.{t.__qualname__}'


def canon(x, **opts):
  return Canon(**opts).term(x)


# ---------------------------------------------------------------------------
# Reference walk: every (path, value) from type knowledge only.
# Path elements: ('i', n) list/tuple index; ('k', key) dict key; ('a', name)
# attribute (Buildable str argument / named-tuple field); ('bi', n) Buildable
# positional (int) argument.


def children(x):
  """Ordered (path_element, child) pairs of a node; [] for leaves."""
  if isinstance(x, Buildable):
    out = []
    for k in _ordered_keys(x):
      out.append((('bi', k) if isinstance(k, int) else ('a', k), x.__arguments__[k]))
    return out
  if is_namedtuple(x):
    return [(('a', f), v) for f, v in zip(type(x)._fields, x)]
  if isinstance(x, (list, tuple)):
    return [(('i', i), v) for i, v in enumerate(x)]
  if isinstance(x, dict):
    return [(('k', k), v) for k, v in x.items()]
  if hasattr(x, '__vchildren__') and not isinstance(x, type):
    return list(x.__vchildren__())
  return []


def _ordered_keys(b):
  """Signature order for named/posonly params, then *args, then **kwargs extras."""
  try:
    params = list(inspect.signature(b.__fn_or_cls__).parameters.values())
  except (TypeError, ValueError):
    return sorted(b.__arguments__, key=_key_sort)
  args = b.__arguments__
  out = []
  vp = None
  for i, p in enumerate(params):
    if p.kind == p.POSITIONAL_ONLY:
      if i in args:
        out.append(i)
    elif p.kind in (p.POSITIONAL_OR_KEYWORD, p.KEYWORD_ONLY):
      if p.name in args:
        out.append(p.name)
    elif p.kind == p.VAR_POSITIONAL:
      j = i
      while j in args:
        out.append(j)
        j += 1
  for k in args:
    if k not in out:
      out.append(k)
  return out


def walk(x, path=(), _depth=0):
  """Un-memoized pre-order walk yielding (path, value); raises on depth > 300."""
  if _depth > 300:
    raise RecursionError('walk: too deep / cyclic')
  yield path, x
  for pe, c in children(x):
    yield from walk(c, path + (pe,), _depth + 1)


def identity_nodes(x):
  """dict id -> (object, [paths]) for all identity-bearing reachable objects."""
  out = {}
  for p, v in walk(x):
    if is_internable(v):
      continue
    out.setdefault(id(v), (v, []))[1].append(p)
  return out


def follow(root, path):
  v = root
  for kind, k in path:
    if kind in ('i', 'k'):
      v = v[k]
    elif kind == 'bi':
      v = v.__arguments__[k]
    elif kind == 'a':
      v = v.__arguments__[k] if isinstance(v, Buildable) else getattr(v, k)
    else:
      raise ValueError(kind)
  return v
