"""Seeded-change bookkeeping.

  python -m harness.seedtool import <ID> <X>     validate an agent's change from /tmp/wt_out and copy it to seeded/<ID>_<X>/
  python -m harness.seedtool run <ID>_<X> [CHECK_ID] [tier]   apply to a scratch worktree of /repo HEAD, run the check there
  python -m harness.seedtool runall              run every seeded change against its property's quick check

Scratch worktrees live under /dev/shm/seedrun and are removed afterwards.
"""

import json
import os
import shutil
import subprocess
import sys
import time

VERIF = os.path.dirname(os.path.dirname(os.path.abspath(__file__)))
PINNED = 'e287c86'
SCRATCH = '/dev/shm/seedrun'
PY = '/venv/bin/python'


def sh(cmd, cwd=None, env=None, timeout=3600):
  e = dict(os.environ)
  e.update(env or {})
  p = subprocess.run(cmd, shell=True, cwd=cwd, env=e, capture_output=True, text=True, timeout=timeout)
  return p.returncode, (p.stdout + p.stderr)


def mk_worktree(name, rev):
  path = os.path.join(SCRATCH, name)
  os.makedirs(SCRATCH, exist_ok=True)
  if os.path.exists(path):
    rm_worktree(path)
  rc, out = sh(f'git -C /repo worktree add --detach {path} {rev} -q')
  if rc:
    raise RuntimeError(out)
  return path


def rm_worktree(path):
  sh(f'git -C /repo worktree remove --force {path}')
  shutil.rmtree(path, ignore_errors=True)
  sh('git -C /repo worktree prune')


def apply_patch(wt, patch):
  rc, out = sh(f'git apply {patch}', cwd=wt)
  if rc:
    rc, out2 = sh(f'git apply --3way {patch}', cwd=wt)
    out += out2
  return rc, out


def do_import(pid, x, src_root='/tmp/wt_out', base=None):
  global PINNED
  if base:
    PINNED = base
  src = f'{src_root}/{pid}/{x}'
  name = f'{pid}_{x}'
  dst = os.path.join(VERIF, 'seeded', name)
  os.makedirs(dst, exist_ok=True)
  for f in ('patch.diff', 'demo.py', 'notes.md'):
    shutil.copy(os.path.join(src, f), os.path.join(dst, f))
  meta = {'property': pid, 'variant': x, 'pinned_commit': PINNED, 'base_commit': PINNED}
  wt = mk_worktree('imp_' + name, PINNED)
  try:
    env = {'PYTHONPATH': wt, 'PYTHONDONTWRITEBYTECODE': '1'}
    rc0, out0 = sh(f'{PY} {dst}/demo.py', cwd=wt, env=env, timeout=1200)
    meta['demo_clean_exit'] = rc0
    rc, out = apply_patch(wt, f'{dst}/patch.diff')
    meta['patch_applies_to_pinned'] = rc == 0
    rc1, out1 = sh(f'{PY} {dst}/demo.py', cwd=wt, env=env, timeout=1200)
    meta['demo_patched_exit'] = rc1
    meta['demo_patched_tail'] = out1[-600:]
    rct, outt = sh(f'{PY} -m pytest -q -p no:cacheprovider --timeout=900 -n 8 2>&1 | tail -4', cwd=wt, timeout=3000)
    meta['suite_with_patch'] = outt.strip().splitlines()[-1] if outt.strip() else ''
    meta['suite_failed_tests'] = [l for l in outt.splitlines() if l.startswith('FAILED')]
    meta['what_i_ran'] = ('worktree of pinned commit; demo on clean tree; git apply patch.diff; demo again; '
                          'pytest -q -n 8 (the only failure allowed is the pre-existing '
                          'ir_to_cst_test jax.P failure of this sandbox)')
  finally:
    rm_worktree(wt)
  notes = open(os.path.join(dst, 'notes.md')).read()
  meta['needs_to_manifest'] = notes[:1500]
  ok = (meta['demo_clean_exit'] == 0 and meta['patch_applies_to_pinned'] and meta['demo_patched_exit'] != 0
        and '1061 passed' in meta['suite_with_patch']
        and all('jax_partition_spec' in l for l in meta['suite_failed_tests']))
  meta['confirmed'] = ok
  with open(os.path.join(dst, 'meta.json'), 'w') as f:
    json.dump(meta, f, indent=1)
  print(name, 'confirmed' if ok else 'NOT CONFIRMED', meta['suite_with_patch'], 'demo', rc0, rc1)
  return ok


def do_run(name, check_id=None, tier='quick', seed='1'):
  dst = os.path.join(VERIF, 'seeded', name)
  pid = check_id or name.split('_')[0]
  meta = {}
  if os.path.exists(f'{dst}/meta.json'):
    meta = json.load(open(f'{dst}/meta.json'))
  # `run_on_base`: the change needs a defect of the base tree that was repaired later, so it is
  # evaluated on the commit it was written against (see DESIGN.md)
  rev = meta.get('base_commit') if meta.get('run_on_base') else 'HEAD'
  wt = mk_worktree(f'run_{name}_{pid}_{os.getpid()}', rev)
  t0 = time.time()
  try:
    patch = f'{dst}/patch_head.diff' if (os.path.exists(f'{dst}/patch_head.diff') and rev == 'HEAD') else f'{dst}/patch.diff'
    rc, out = apply_patch(wt, patch)
    if rc:
      print(name, 'PATCH DOES NOT APPLY to HEAD:', out[-300:])
      return None
    rc, out = sh(f'./check {pid} {tier}', cwd=VERIF,
                 env={'VERIF_REPO': wt, 'VERIF_SEED': seed, 'VERIF_EVIDENCE_DIR': '/dev/shm/seedrun/ev'}, timeout=7200)
  finally:
    rm_worktree(wt)
  viol = [l for l in out.splitlines() if l.startswith('VIOLATION') or l.startswith('--- bucket')]
  print(f'{name} vs {pid} {tier} seed={seed}: exit={rc} wall={time.time()-t0:.0f}s ' + ' / '.join(viol[:3])[:400])
  return rc


def main(argv):
  if argv[0] == 'import':
    do_import(argv[1], argv[2], *(argv[3:5]))
  elif argv[0] == 'run':
    do_run(argv[1], argv[2] if len(argv) > 2 else None, argv[3] if len(argv) > 3 else 'quick',
           argv[4] if len(argv) > 4 else '1')
  elif argv[0] == 'runall':
    res = {}
    for name in sorted(os.listdir(os.path.join(VERIF, 'seeded'))):
      if os.path.exists(os.path.join(VERIF, 'seeded', name, 'patch.diff')):
        pid = name.split('_')[0]
        if os.path.exists(os.path.join(VERIF, 'harness', 'props', pid.lower() + '.py')):
          res[name] = do_run(name)
    print(json.dumps(res))


if __name__ == '__main__':
  main(sys.argv[1:])
