"""Setup-time self test: imports, universe determinism."""
import sys
from harness import runner
runner.setup_paths()
from harness.vuni import sigs
import hypothesis, fiddle
assert len(sigs.all_shape_codes()) == 1176
f = sigs.fn_p1k1d1vq1w
assert f(1).bound == {'p0': 1, 'a': 'd_a', 'k0': 'd_k0'}
print('selftest ok: hypothesis', hypothesis.__version__, 'fiddle at', fiddle.__file__)
