#!/bin/bash
# Offline setup: hypothesis into /venv (idempotent), jsonschema + atheris into ./.deps
cd "$(dirname "$0")" || exit 2
set -e
W=/opt/veriftools/wheels
export PIP_NO_INDEX=1 PIP_DISABLE_PIP_VERSION_CHECK=1
/venv/bin/python -c "import hypothesis" 2>/dev/null || /venv/bin/pip install --no-index --find-links $W hypothesis
mkdir -p .deps
/venv/bin/python -c "import sys; sys.path.insert(0,'.deps'); import jsonschema" 2>/dev/null || \
  /venv/bin/pip install -q --no-index --find-links $W --target .deps jsonschema || echo "setup: jsonschema unavailable (built-in evidence validation will be used)"
/venv/bin/python -c "import sys; sys.path.insert(0,'.deps'); import atheris" 2>/dev/null || \
  /venv/bin/pip install -q --no-index --find-links $W --target .deps atheris || echo "setup: atheris unavailable (hypothesis-only fallback)"
PYTHONPATH="$(pwd):$(pwd)/.deps" PYTHONDONTWRITEBYTECODE=1 /venv/bin/python -m harness.selftest
